"""Frozen serial-API tables and an independent validator.

Authored from the published MySensors serial API (1.4, 1.5, 2.0, 2.1, 2.2 are
historical and immutable) and the C03 statement. Never imports mysensors.

accepts(version, node, child, type, ack, sub, payload) -> True / False / None
(None = the statement does not fix the verdict for this payload spelling).
"""
import re

VERSIONS = ["1.4", "1.5", "2.0", "2.1", "2.2"]

# ---- defined sub-types (largest defined number, contiguous from 0) ----------
# presentation: S_* ; 1.4 ends at S_SCENE_CONTROLLER(25); 1.5 adds ..S_MOISTURE(35);
# 2.0 adds S_INFO(36) S_GAS(37) S_GPS(38) S_WATER_QUALITY(39).
MAX_PRES = {"1.4": 25, "1.5": 35, "2.0": 39, "2.1": 39, "2.2": 39}
# set/req: V_* ; 1.4 ends at V_CURRENT(39); 1.5 adds V_RGB(40)..V_HVAC_FLOW_MODE(46);
# 2.0 adds V_TEXT(47)..V_POWER_FACTOR(56).
MAX_SET = {"1.4": 39, "1.5": 46, "2.0": 56, "2.1": 56, "2.2": 56}
# internal: I_* ; 1.4 ends at I_GATEWAY_READY(14); 1.5 adds signing/nonce (15-17);
# 2.0 adds I_HEARTBEAT(18)..I_DEBUG(28); 2.2 adds signal report / sleep notifications (29-33).
MAX_INT = {"1.4": 14, "1.5": 17, "2.0": 28, "2.1": 28, "2.2": 33}
# stream: ST_FIRMWARE_CONFIG_REQUEST(0)..ST_IMAGE(5) in every version.
MAX_STREAM = {v: 5 for v in VERSIONS}

HEAT_WORDS = ("Off", "HeatOn", "CoolOn", "AutoChangeOver")
SPEED_WORDS = ("Min", "Normal", "Max", "Auto")


def set_rule(version, sub):
    """Payload rule class of a set message (C03: percentages, binary, HVAC words, hex, gps)."""
    if sub in (2, 15, 16, 36):      # V_LIGHT/V_STATUS, V_ARMED, V_TRIPPED, V_LOCK_STATUS
        return "BIN01"
    if sub == 3:                    # V_DIMMER / V_PERCENTAGE
        return "PERCENT_INT"
    if sub == 21:                   # V_HEATER / V_HVAC_FLOW_STATE
        return ("ENUM", HEAT_WORDS)
    if sub == 22:                   # 1.4: V_HEATER_SW binary; >=1.5: V_HVAC_SPEED words
        return "BIN01" if version == "1.4" else ("ENUM", SPEED_WORDS)
    if sub == 23:                   # V_LIGHT_LEVEL 0-100 %
        return "FLOAT_0_100"
    if sub == 40:
        return ("HEX", 6)
    if sub == 41:
        return ("HEX", 8)
    if sub in (44, 45):             # V_HVAC_SETPOINT_COOL / HEAT
        return "FLOAT_0_100"
    if sub == 49:
        return "GPS"
    if sub == 56:                   # V_POWER_FACTOR -1..1
        return "FLOAT_M1_1"
    return "ANY"


def internal_rule(version, sub):
    return {
        0: "PERCENT_INT",   # I_BATTERY_LEVEL
        1: "TIME",          # I_TIME: empty request or seconds
        2: "ANY",           # I_VERSION
        3: "EMPTY",         # I_ID_REQUEST
        4: "INT_1_254",     # I_ID_RESPONSE
        5: "BIN01",         # I_INCLUSION_MODE
        6: "CONFIG",        # I_CONFIG: parent id from node / M|I to node
        7: "EMPTY",         # I_FIND_PARENT(_REQUEST)
        8: "INT_0_254",     # I_FIND_PARENT_RESPONSE
        9: "ANY", 10: "ANY", 11: "ANY", 12: "ANY",
        13: "EMPTY",        # I_REBOOT
        14: "ANY",          # I_GATEWAY_READY
        15: "ANY", 16: "ANY", 17: "ANY",
        18: "EMPTY",        # I_HEARTBEAT(_REQUEST)
        19: "EMPTY",        # I_PRESENTATION
        20: "EMPTY",        # I_DISCOVER(_REQUEST)
        21: "INT_0_254",    # I_DISCOVER_RESPONSE (parent id)
        22: "INT",          # I_HEARTBEAT_RESPONSE counter
        23: "ANY",          # I_LOCKED
        24: "INT", 25: "INT",   # I_PING / I_PONG hop counters
        26: "ANY", 27: "ANY", 28: "ANY",
        29: "ANY",          # I_SIGNAL_REPORT_REQUEST
        30: "INT", 31: "INT",   # signal report reverse / response
        32: "INT", 33: "INT",   # pre/post sleep notification (ms)
    }[sub]


def rule_for(version, typ, sub):
    """Rule class, or None when (typ, sub) is not defined in version."""
    if version not in VERSIONS or sub < 0:
        return None
    if typ == 0:
        if sub > MAX_PRES[version]:
            return None
        return "VERSION" if sub in (17, 18) else "ANY"
    if typ == 1:
        return set_rule(version, sub) if sub <= MAX_SET[version] else None
    if typ == 2:
        return "EMPTY" if sub <= MAX_SET[version] else None
    if typ == 3:
        return internal_rule(version, sub) if sub <= MAX_INT[version] else None
    if typ == 4:
        return "STREAM_OPEN" if sub <= MAX_STREAM[version] else None
    return None


_INT = re.compile(r"^[0-9]+$")
_FLOAT = re.compile(r"^-?[0-9]+(\.[0-9]+)?$")
_HEX = re.compile(r"^[0-9a-fA-F]*$")
_VER = re.compile(r"^([0-9]+)\.([0-9]+)(\.([0-9]+))?$")


def _plain_int(p):
    return int(p) if _INT.match(p) else None


def payload_ok(rule, p):
    """True/False when the statement decides it, None when the spelling is undecided."""
    if rule == "ANY" or rule == "STREAM_OPEN":
        return True
    if rule == "EMPTY":
        return p == ""
    if sum(1 for ch in p if ch.isdigit()) > 4000:
        # more digits than int() converts (CPython's limit is 4300): whether such a "number" is in range is not decided
        # here - only that handling it must not raise
        return None
    if rule == "BIN01":
        if p in ("0", "1"):
            return True
        if p == "" or not any(ch.isdigit() for ch in p):
            return False
        if _INT.match(p) and p == str(int(p)):
            return False
        return None
    if rule in ("PERCENT_INT", "INT_1_254", "INT_0_254", "INT"):
        lo, hi = {"PERCENT_INT": (0, 100), "INT_1_254": (1, 254), "INT_0_254": (0, 254),
                  "INT": (0, None)}[rule]      # for INT the lower bound only classifies: negatives are decided below
        if p == "":
            return False
        v = _plain_int(p)
        if v is not None:
            if v < lo:
                return False
            if hi is not None and v > hi:
                return False
            return True
        if re.match(r"^-[0-9]+$", p):
            if int(p) == 0:
                return None          # "-0": a spelling of zero the statement does not decide
            # "integers for counters": the rule is about the type, not the sign (signal reports are negative dBm values)
            return False if rule != "INT" else True
        if not any(ch.isdigit() for ch in p):
            return False
        return None
    if rule in ("FLOAT_0_100", "FLOAT_M1_1"):
        lo, hi = (0.0, 100.0) if rule == "FLOAT_0_100" else (-1.0, 1.0)
        if p == "":
            return False
        if _FLOAT.match(p):
            return lo <= float(p) <= hi
        if not any(ch.isdigit() for ch in p) and p.lower() not in ("nan", "inf", "-inf", "+inf", "infinity", "-infinity", "+infinity"):
            return False
        return None
    if isinstance(rule, tuple) and rule[0] == "ENUM":
        if p in rule[1]:
            return True
        if p.lower() in [w.lower() for w in rule[1]] or p.strip() in rule[1]:
            return None
        return False
    if isinstance(rule, tuple) and rule[0] == "HEX":
        if not p.isascii():
            return False      # hex digits are ASCII
        if len(p) != rule[1]:
            return False
        return bool(_HEX.match(p))
    if rule == "GPS":
        parts = p.split(",")
        if len(parts) != 3:
            return False
        oks = [bool(_FLOAT.match(x)) for x in parts]
        if all(oks):
            return True
        if any(not any(ch.isdigit() for ch in x) and x.strip().lower() not in ("nan", "inf", "-inf", "infinity", "-infinity") for x in parts):
            return False
        return None
    if rule == "VERSION":
        m = _VER.match(p)
        if m:
            return (int(m.group(1)), int(m.group(2))) >= (1, 4)
        if p == "" or not any(ch.isdigit() for ch in p):
            return False
        # release numbers with a pre-release / build suffix (2.2.0-rc.2, 2.3.0-beta, 1.5.1+build7 - what nodes running a
        # beta of the library present): decided by the number when it is clearly above or below 1.4, undecided at 1.4.x
        m2 = re.match(r"^([0-9]+)\.([0-9]+)\.([0-9]+)[-+][0-9A-Za-z][0-9A-Za-z.-]*$", p)
        if m2 and p.isascii():
            mm = (int(m2.group(1)), int(m2.group(2)))
            if mm > (1, 4):
                return True
            if mm < (1, 4):
                return False
        return None
    if rule == "CONFIG":
        if p in ("M", "I"):
            return True
        v = _plain_int(p)
        if v is not None:
            return 0 <= v <= 254
        if p == "":
            return None
        if re.match(r"^-[0-9]+$", p):
            return False if int(p) != 0 else None
        if not any(ch.isdigit() for ch in p):
            return False
        return None
    if rule == "TIME":
        if p == "":
            return True
        if _INT.match(p):
            return True
        if not any(ch.isdigit() for ch in p):
            return False
        return None
    raise AssertionError(rule)


def header_ok(version, node, child, typ, ack, sub):
    """C03 header clauses. True / False."""
    if typ not in (0, 1, 2, 3, 4):
        return False
    if not 0 <= node <= 255:
        return False
    if ack not in (0, 1):
        return False
    if rule_for(version, typ, sub) is None:
        return False
    if not 0 <= child <= 255:
        return False
    if typ in (1, 2) and child == 255:
        return False
    if typ in (3, 4) and child != 255:
        if not (typ == 3 and sub in (3, 4)):
            return False
    return True


def accepts(version, node, child, typ, ack, sub, payload):
    if not header_ok(version, node, child, typ, ack, sub):
        return False
    return payload_ok(rule_for(version, typ, sub), payload)


# ---- decided corpora per rule class ---------------------------------------
def corpus(rule):
    """(payload, expected) pairs whose verdict the statement fixes, plus undecided ones (None)."""
    anyc = [("", True), ("x", True), ("hello world", True), ("0", True), ("å中\U0001f600", True),
            ("a b\tc", True), ("-1", True), ("1,2", True), ("45%", True), ("%s %d", True), ("100%%", True), ("%(x)s", True)]
    if rule in ("ANY", "STREAM_OPEN"):
        return anyc
    if rule == "EMPTY":
        return [("", True), ("x", False), ("0", False), ("1", False), ("abc def", False)]
    if rule == "BIN01":
        return [("0", True), ("1", True), ("2", False), ("", False), ("10", False), ("-1", None),
                ("a", False), ("true", False), ("01", None), ("1.0", None), (" 1", None)]
    if rule == "PERCENT_INT":
        return [("0", True), ("1", True), ("50", True), ("99", True), ("100", True), ("-1", False),
                ("101", False), ("1000", False), ("abc", False), ("", False), ("50.5", None),
                ("+5", None), (" 50", None), ("1e2", None), ("٥", None), ("1_0", None),
                ("100.9", False), ("inf", False), ("-inf", False), ("nan", False), ("1e999", False)]
    if rule == "INT_1_254":
        return [("1", True), ("254", True), ("100", True), ("0", False), ("255", False), ("", False),
                ("abc", False), ("-1", False), ("1.5", None)]
    if rule == "INT_0_254":
        return [("0", True), ("254", True), ("7", True), ("255", False), ("-1", False), ("", False),
                ("abc", False), ("2.5", None)]
    if rule == "INT":
        return [("0", True), ("123", True), ("123456", True), ("4294967295", True), ("", False),
                ("abc", False), ("-5", True), ("-67", True), ("-128", True), ("1.5", None), ("1e3", None), ("inf", False), ("nan", False)]
    if rule == "FLOAT_0_100":
        return [("0", True), ("50", True), ("99.5", True), ("100", True), ("100.0", True), ("0.0", True),
                ("-0.1", False), ("100.1", False), ("101", False), ("abc", False), ("", False),
                ("1e1", None), ("nan", None), (".5", None), ("5.", None), ("inf", False), ("-inf", False), ("1e999", False)]
    if rule == "FLOAT_M1_1":
        return [("-1", True), ("0", True), ("0.9", True), ("1", True), ("1.0", True), ("-1.0", True),
                ("-1.1", False), ("1.1", False), ("2", False), ("abc", False), ("", False), ("nan", None),
                ("inf", False), ("-inf", False)]
    if isinstance(rule, tuple) and rule[0] == "ENUM":
        return [(w, True) for w in rule[1]] + [("", False), ("1", False), ("Foo", False),
                                                (rule[1][0].lower(), None), (rule[1][0] + "x", False)]
    if isinstance(rule, tuple) and rule[0] == "HEX":
        n = rule[1]
        return [("f" * n, True), ("0" * n, True), (("A1b2C3d4")[:n], True), ("", False),
                ("f" * (n - 1), False), ("f" * (n + 1), False), ("g" * n, False),
                ("f" * (n + 2), False), ("f" * (n - 2), False), ("zz" + "f" * (n - 2), False),
                # exactly n characters but not n hex digits: blanks between byte pairs, sign, prefix, separators
                ("ff" + " " * (n - 4) + "aa", False), (" " * 2 + "f" * (n - 2), False), ("ff\t\t" + "a" * (n - 4), False),
                ("0x" + "f" * (n - 2), False), ("+" + "f" * (n - 1), False), ("f" * (n - 1) + "_", False),
                ("ff:" + "f" * (n - 3), False), ("f" * (n - 2) + "\u0666\u0666", False)]
    if rule == "GPS":
        return [("1,2,3", True), ("55.7,13.1,10.5", True), ("-1.5,-2,0", True), ("", False), ("1,2", False),
                ("1,2,3,4", False), ("a,b,c", False), ("1,2,x", False), ("1;2", False), ("1, 2, 3", None)]
    if rule == "VERSION":
        return [("1.4", True), ("1.5", True), ("2.0", True), ("2.2.0", True), ("2.3.2", True), ("1.4.1", True),
                ("", False), ("abc", False), ("1.3", False), ("1.0", False), ("0.9", False), ("1.3.9", False),
                ("2", None), ("2.0-beta", None), ("v2.0", None), ("2.2.0-rc.2", True), ("2.3.0-beta", True), ("1.5.1+build7", True),
                ("1.3.0-beta", False), ("1.4.0-beta", None)]
    if rule == "CONFIG":
        return [("M", True), ("I", True), ("0", True), ("1", True), ("254", True), ("255", False),
                ("-1", False), ("X", False), ("MI", False), ("", None)]
    if rule == "TIME":
        return [("", True), ("0", True), ("1600000000", True), ("abc", False), ("1.5", None)]
    raise AssertionError(rule)


def minimal_ok(rule):
    for p, exp in corpus(rule):
        if exp is True:
            return p
    raise AssertionError(rule)
