"""pytest plugin (-p vf.suite_plugin): run the repository's own tests with the runtime contracts installed."""
import os

from vf import contracts

_MODE = None


def pytest_configure(config):
    global _MODE
    _MODE = contracts.install()


def pytest_sessionfinish(session, exitstatus):
    out = os.environ.get("VF_SUITE_OUT")
    if out:
        contracts.dump(out, _MODE)
