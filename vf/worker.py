"""Worker entry: python -m vf.worker <PROP> <jobs.json> <out.json>."""
import faulthandler
import importlib
import json
import sys

from . import core


def main():
    prop, jf, of = sys.argv[1:4]
    faulthandler.enable()
    core.use_repo()
    mod = importlib.import_module(f"vf.props.{prop.lower()}")
    with open(jf, encoding="utf-8") as fh:
        jobs = json.load(fh)
    out = []
    for job in jobs:
        if "replay" in job:
            res = mod.replay(job["replay"])
        else:
            res = mod.run(job)
        out.append(res.dump())
    with open(of, "w", encoding="utf-8") as fh:
        json.dump(out, fh, default=repr)


if __name__ == "__main__":
    main()
