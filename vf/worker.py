"""Worker entry: python -m vf.worker <PROP> <jobs.json> <out.json>."""
import faulthandler
import importlib
import json
import os
import sys

from . import core


def main():
    prop, jf, of = sys.argv[1:4]
    faulthandler.enable()
    core.use_repo()
    mod = importlib.import_module(f"vf.props.{prop.lower()}")
    with open(jf, encoding="utf-8") as fh:
        jobs = json.load(fh)
    out = []
    import logging

    lib_log = logging.getLogger("mysensors")
    lib_log.addHandler(logging.NullHandler())
    lib_log.propagate = False
    for k, job in enumerate(jobs):
        # what the library does must not depend on its log level: every third job of a worker runs with the library's
        # debug logging switched on (records are built and dropped)
        # ... and every third with everything below ERROR switched off (what users do to silence a noisy gateway)
        lib_log.setLevel((logging.WARNING, logging.DEBUG, logging.ERROR)[k % 3])
        if "replay" in job:
            res = mod.replay(job["replay"])
        else:
            res = mod.run(job)
        out.append(res.dump())
    with open(of, "w", encoding="utf-8") as fh:
        json.dump(out, fh, default=repr)
        fh.flush()
        os.fsync(fh.fileno())
    # library threads that are blocked for good (reported by the job that saw them) must not keep the worker alive
    sys.stdout.flush()
    sys.stderr.flush()
    os._exit(0)


if __name__ == "__main__":
    main()
