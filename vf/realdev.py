"""Real-device sample (C20): the real gateways over real loopback TCP sockets and real ptys, with the library's real
threads / a real asyncio loop and wall-clock time. Nothing is simulated here except the device at the far end.

The oracles are count- and order-based with generous deadlines (a deadline that fires on a loaded machine must not
become a verdict): a lifetime's anomalies only count when they reproduce (see props/c20.py).

Event vocabulary (time, kind, ...):
  CONNECT-BEGIN / CONNECT-END ok|fail   thin logging wrappers around the library's own connect call
  MADE ok / LOST ok errname             the user's callbacks
  ACCEPT cid / RX cid bytes / PEER-CLOSED cid / DEV-DROP cid how / ANSWER cid / DEV-LISTEN / DEV-UNLISTEN   device side
  ACTION tok cid / WAIT-TIMEOUT what / STOPPING / STOPPED / END
"""
import asyncio
import os
import queue
import select
import shutil
import socket
import struct
import tempfile
import threading
import time
import tty

REQ = b"7;255;3;0;6;0\n"
PROBE = b";255;3;0;2;"


class Log:
    def __init__(self):
        self.t0 = time.monotonic()
        self.ev = []
        self.lock = threading.Lock()

    def add(self, kind, *a):
        with self.lock:
            self.ev.append((round(time.monotonic() - self.t0, 4), kind) + a)

    def snap(self):
        with self.lock:
            return list(self.ev)

    def count(self, kind, pred=None):
        return sum(1 for e in self.snap() if e[1] == kind and (pred is None or pred(e)))

    def wait(self, pred, timeout, what=None):
        end = time.monotonic() + timeout
        while time.monotonic() < end:
            if pred():
                return True
            time.sleep(0.01)
        if pred():
            return True
        if what:
            self.add("WAIT-TIMEOUT", what)
        return False


# ------------------------------------------------------------------------------------------------ devices
class _TcpConn(threading.Thread):
    def __init__(self, dev, sock, cid):
        super().__init__(daemon=True, name=f"dev-conn-{cid}")
        self.dev, self.sock, self.cid = dev, sock, cid
        self.cmds = queue.Queue()
        self.open = True

    def run(self):
        c, log = self.sock, self.dev.log
        while True:
            try:
                cmd = self.cmds.get_nowait()
            except queue.Empty:
                cmd = None
            try:
                if cmd is not None:
                    if cmd[0] == "send":
                        c.sendall(cmd[1])
                    else:
                        if cmd[0] == "rst":
                            c.setsockopt(socket.SOL_SOCKET, socket.SO_LINGER, struct.pack("ii", 1, 0))
                        self.open = False
                        log.add("DEV-DROP", self.cid, cmd[0])
                        c.close()
                        return
                r, _, _ = select.select([c], [], [], 0.01)
                if not r:
                    continue
                data = c.recv(4096)
            except OSError as exc:
                self.open = False
                log.add("PEER-CLOSED", self.cid, f"error {exc.errno}")
                c.close()
                return
            if not data:
                self.open = False
                log.add("PEER-CLOSED", self.cid, "eof")
                c.close()
                return
            log.add("RX", self.cid, data)
            if self.dev.answer and PROBE in data:
                try:
                    c.sendall(b"0;255;3;0;2;2.3.2\n")
                    log.add("ANSWER", self.cid)
                except OSError:
                    pass


class TcpDevice:
    """A MySensors ethernet gateway device on 127.0.0.1."""

    def __init__(self, log, answer=True, host="127.0.0.1"):
        self.log, self.answer = log, answer
        self.host = host
        self.port = None
        self.lsock = None
        self.conns = []
        self.up()

    @property
    def address(self):
        return self.port

    def up(self):
        s = socket.socket(socket.AF_INET6 if ":" in self.host else socket.AF_INET)
        s.setsockopt(socket.SOL_SOCKET, socket.SO_REUSEADDR, 1)
        s.bind((self.host, self.port or 0))
        s.listen(8)
        self.port = s.getsockname()[1]
        self.lsock = s
        self.log.add("DEV-LISTEN")
        threading.Thread(target=self._accept, args=(s,), daemon=True, name="dev-accept").start()

    def down(self):
        s, self.lsock = self.lsock, None
        if s is not None:
            try:
                s.shutdown(socket.SHUT_RDWR)
            except OSError:
                pass
            s.close()
            self.log.add("DEV-UNLISTEN")

    def _accept(self, s):
        while True:
            try:
                c, _ = s.accept()
            except OSError:
                return
            conn = _TcpConn(self, c, len(self.conns) + 1)
            self.conns.append(conn)
            self.log.add("ACCEPT", conn.cid)
            conn.start()

    def live(self):
        for c in reversed(self.conns):
            if c.open:
                return c
        return None

    def send(self, data):
        c = self.live()
        if c is not None:
            c.cmds.put(("send", data))
        return c.cid if c else None

    def drop(self, how):
        c = self.live()
        if c is not None:
            c.cmds.put((how,))
            self.log.wait(lambda: not c.open, 2.0)
        return c.cid if c else None

    def close(self):
        self.down()
        for c in self.conns:
            if c.open:
                c.cmds.put(("eof",))


class _Pty(threading.Thread):
    def __init__(self, dev, cid, master):
        super().__init__(daemon=True, name=f"dev-pty-{cid}")
        self.dev, self.cid, self.m = dev, cid, master
        self.cmds = queue.Queue()
        self.open = True          # the device is plugged in
        self.peer_open = False    # the other end (the library) holds the port open

    def run(self):
        log = self.dev.log
        while True:
            try:
                cmd = self.cmds.get_nowait()
            except queue.Empty:
                cmd = None
            if cmd is not None:
                if cmd[0] == "send":
                    try:
                        os.write(self.m, cmd[1])
                    except OSError:
                        pass
                else:
                    self.open = False
                    log.add("DEV-DROP", self.cid, cmd[0])
                    os.close(self.m)
                    return
            r, _, _ = select.select([self.m], [], [], 0.01)
            if not r:
                if not self.peer_open:
                    self.peer_open = True
                    log.add("ACCEPT", self.cid)
                continue
            try:
                data = os.read(self.m, 4096)
            except OSError:
                data = None        # EIO: nobody has the slave side open
            if data is None:
                if self.peer_open:
                    self.peer_open = False
                    log.add("PEER-CLOSED", self.cid, "closed")
                time.sleep(0.01)
                continue
            if not self.peer_open:
                self.peer_open = True
                log.add("ACCEPT", self.cid)
            if data:
                log.add("RX", self.cid, data)


class PtyDevice:
    """A MySensors serial gateway device: a pty whose slave side is reachable through a stable path (a symlink that is
    removed when the device is unplugged and re-pointed when it is plugged in again)."""

    def __init__(self, log, directory):
        self.log = log
        self.link = os.path.join(directory, "ttyMYS0")
        self.conns = []
        self.answer = False
        self.up()

    @property
    def address(self):
        return self.link

    def up(self):
        m, s = os.openpty()
        tty.setraw(s)
        name = os.ttyname(s)
        os.close(s)
        if os.path.islink(self.link):
            os.unlink(self.link)
        os.symlink(name, self.link)
        p = _Pty(self, len(self.conns) + 1, m)
        self.conns.append(p)
        self.log.add("DEV-LISTEN")
        p.start()

    def down(self):
        if os.path.islink(self.link):
            os.unlink(self.link)
            self.log.add("DEV-UNLISTEN")

    def live(self):
        for c in reversed(self.conns):
            if c.open:
                return c
        return None

    def send(self, data):
        c = self.live()
        if c is not None:
            c.cmds.put(("send", data))
        return c.cid if c else None

    def drop(self, how):
        """Unplug: the path disappears and the pty goes away."""
        c = self.live()
        self.down()
        if c is not None:
            c.cmds.put((how,))
            self.log.wait(lambda: not c.open, 2.0)
        return c.cid if c else None

    def close(self):
        self.drop("unplug")


# ------------------------------------------------------------------------------------------------ runner
class _Proxy:
    """Module stand-in: one function wrapped for logging, everything else the real module."""

    def __init__(self, real, **wrapped):
        self.__dict__["_real"] = real
        self.__dict__.update(wrapped)

    def __getattr__(self, name):
        return getattr(self._real, name)


def _logged(log, fn):
    def wrapper(*a, **k):
        log.add("CONNECT-BEGIN")
        try:
            r = fn(*a, **k)
        except BaseException:
            log.add("CONNECT-END", "fail")
            raise
        log.add("CONNECT-END", "ok")
        return r
    return wrapper


def _logged_async(log, fn):
    async def wrapper(*a, **k):
        log.add("CONNECT-BEGIN")
        try:
            r = await fn(*a, **k)
        except BaseException:
            log.add("CONNECT-END", "fail")
            raise
        log.add("CONNECT-END", "ok")
        return r
    return wrapper


def _thread_role(args):
    """Which library thread ended with an exception: decided from the traceback (Thread._target is gone by then)."""
    import traceback
    names = [f.name for f in traceback.extract_tb(args.exc_traceback)]
    if "_poll_queue" in names:
        return "_poll_queue"
    if "sync_connect" in names or "_connect" in names:
        return "connect-thread"
    return type(args.thread).__name__ if args.thread is not None else "?"


def _where(args):
    import traceback
    return [f"{f.filename.rsplit('/', 1)[-1]}:{f.name}" for f in traceback.extract_tb(args.exc_traceback)][-4:]


def stop_guarded(gw, budget=12.0):
    """gw.stop() of a threaded gateway on a helper thread. None when it returned; otherwise, after `budget` seconds, the
    library frames of every thread are sampled three times a second apart: the threads whose stack did not move are
    returned as {thread name: ((file, function, line), ...)} - blocked for good (a lock that is never released), not slow."""
    import sys
    import traceback

    done = threading.Event()
    err = []

    def body():
        try:
            gw.stop()
        except BaseException as exc:      # re-raised in the caller
            err.append(exc)
        finally:
            done.set()

    th = threading.Thread(target=body, name="vf-stop", daemon=True)
    th.start()
    if done.wait(budget):
        if err:
            raise err[0]
        return None
    samples = []
    for _ in range(3):
        frames = sys._current_frames()
        snap = {}
        for t in threading.enumerate():
            f = frames.get(t.ident)
            st = traceback.extract_stack(f) if f is not None else []
            lib = tuple((os.path.basename(fr.filename), fr.name, fr.lineno) for fr in st if "/mysensors/" in fr.filename.replace(os.sep, "/"))
            if lib:
                fns = [x[1] for x in lib]
                role = ("stop()" if t.name == "vf-stop" else "poll thread" if "_poll_queue" in fns else
                        "connect thread" if "sync_connect" in fns or "_connect" in fns else t.name)
                snap[role] = lib
        samples.append(snap)
        time.sleep(1.0)
    if done.is_set():
        if err:
            raise err[0]
        return None
    stable = {n: st for n, st in samples[0].items() if all(x.get(n) == st for x in samples[1:])}
    return stable or {"stop()": (("?", "?", 0),)}


def run_real(kind, flavour, script, rt=0.4, answer=True, hold=0.0, host="127.0.0.1", neighbour=False):
    """One lifetime of a real gateway against a real (loopback / pty) device. Returns (events, meta)."""
    import serial
    import serial_asyncio
    import mysensors.gateway_serial as mgs
    import mysensors.gateway_tcp as mgt
    from .fakes import Patched

    log = Log()
    tmp = tempfile.mkdtemp(prefix="vf-real-")
    meta = {"kind": kind, "flavour": flavour, "rt": rt, "script": list(script), "answer": answer, "hold": hold, "real": True,
            "thread_errors": [], "loop_errors": []}
    dev = TcpDevice(log, answer, host) if kind == "tcp" else PtyDevice(log, tmp)
    old_hook = threading.excepthook

    def hook(args):
        if not (args.thread and args.thread.name.startswith("dev-")):
            meta["thread_errors"].append((_thread_role(args), type(args.exc_value).__name__, str(args.exc_value)[:120]))

    threading.excepthook = hook
    loop = None
    loop_thread = None
    other = None
    D = 6 * rt + 4.0
    patches = []
    if flavour == "threaded":
        if kind == "tcp":
            patches.append((mgt, "socket", _Proxy(socket, create_connection=_logged(log, socket.create_connection))))
        else:
            patches.append((mgs, "serial", _Proxy(serial, serial_for_url=_logged(log, serial.serial_for_url))))
    elif kind == "serial":
        patches.append((mgs, "serial_asyncio", _Proxy(serial_asyncio, create_serial_connection=_logged_async(log, serial_asyncio.create_serial_connection))))
    try:
        with Patched(*patches):
            if flavour == "asyncio":
                loop = asyncio.new_event_loop()
                if kind == "tcp":
                    loop.create_connection = _logged_async(log, loop.create_connection)
                def on_loop_error(lp, ctx):
                    # asyncio transports report a fatal I/O error through the loop's exception handler before they call
                    # connection_lost: that is the transport doing its job, not an unhandled error of the library
                    if ctx.get("transport") is not None and str(ctx.get("message", "")).startswith("Fatal"):
                        meta["transport_fatal_errors"] = meta.get("transport_fatal_errors", 0) + 1
                        return
                    meta["loop_errors"].append(repr(ctx.get("exception") or ctx.get("message"))[:160])

                loop.set_exception_handler(on_loop_error)
                loop_thread = threading.Thread(target=loop.run_forever, daemon=True, name="vf-loop")
                loop_thread.start()

            def on_loop(coro_fn, timeout=30.0):
                return asyncio.run_coroutine_threadsafe(coro_fn(), loop).result(timeout)

            cls = {("tcp", "threaded"): mgt.TCPGateway, ("tcp", "asyncio"): mgt.AsyncTCPGateway,
                   ("serial", "threaded"): mgs.SerialGateway, ("serial", "asyncio"): mgs.AsyncSerialGateway}[(kind, flavour)]

            def build():
                if kind == "tcp":
                    return cls(host, port=dev.port, protocol_version="2.2", reconnect_timeout=rt)
                return cls(dev.link, protocol_version="2.2", reconnect_timeout=rt, timeout=0.2)

            other = None
            if neighbour and flavour == "threaded":
                # another threaded gateway of the same process, of the other kind, whose device is not there: it keeps
                # dialling for the whole lifetime of the gateway under test
                if kind == "tcp":
                    other = mgs.SerialGateway(os.path.join(tmp, "no-such-device"), protocol_version="2.2", reconnect_timeout=0.2, timeout=0.2)
                else:
                    probe = socket.socket()
                    probe.bind(("127.0.0.1", 0))
                    free_port = probe.getsockname()[1]
                    probe.close()
                    other = mgt.TCPGateway("127.0.0.1", port=free_port, protocol_version="2.2", reconnect_timeout=0.2)
                other.start()
                meta["neighbour"] = True
                time.sleep(0.3)
            if flavour == "asyncio":
                async def _b():
                    return build()
                gw = on_loop(_b)
            else:
                gw = build()
            gw.on_conn_made = lambda *a: log.add("MADE", len(a) == 1 and a[0] is gw)
            gw.on_conn_lost = lambda *a: log.add("LOST", len(a) == 2 and a[0] is gw, type(a[1]).__name__ if len(a) > 1 and a[1] is not None else None)
            log.add("STARTED")
            if flavour == "asyncio":
                start_fut = asyncio.run_coroutine_threadsafe(gw.start(), loop)
            else:
                gw.start()
            log.wait(lambda: log.count("MADE") >= 1, D, "first connection")
            disconnected = False
            for tok in script:
                if disconnected:
                    break
                time.sleep(0.15)
                n_made, n_lost = log.count("MADE"), log.count("LOST")
                if tok == "traffic":
                    n_rx = log.count("RX", lambda e: b";255;3;0;6;" in e[3])
                    cid = dev.send(REQ)
                    log.add("ACTION", tok, cid)
                    if cid is not None:
                        log.wait(lambda: log.count("RX", lambda e: b";255;3;0;6;" in e[3]) > n_rx, 5.0, "reply to the config request")
                elif tok in ("loss-eof", "loss-rst", "unplug"):
                    cid = dev.live().cid if dev.live() else None
                    log.add("ACTION", tok, cid)
                    dev.drop({"loss-eof": "eof", "loss-rst": "rst", "unplug": "unplug"}[tok])
                    if kind == "serial":
                        time.sleep(0.3 * rt)
                        dev.up()
                    log.wait(lambda: log.count("LOST") > n_lost, D, f"lost callback after {tok}")
                    log.wait(lambda: log.count("MADE") > n_made, D, f"new connection after {tok}")
                elif tok == "down":
                    cid = dev.live().cid if dev.live() else None
                    log.add("ACTION", tok, cid)
                    if kind == "tcp":
                        dev.down()
                        dev.drop("rst")
                    else:
                        dev.drop("unplug")
                    time.sleep(3.3 * rt + 0.3)
                    log.add("ACTION", "up", None)
                    dev.up()
                    log.wait(lambda: log.count("MADE") > n_made, D, "new connection after the device came back")
                elif tok == "silence":
                    dev.answer = False
                    cid = dev.live().cid if dev.live() else None
                    log.add("ACTION", tok, cid)
                    log.wait(lambda: log.count("LOST") > n_lost, 3 * rt + 4.0, "silent link dropped")
                    dev.answer = answer
                    log.wait(lambda: log.count("MADE") > n_made, D, "new connection after the silent link was dropped")
                elif tok == "disconnect":
                    log.add("ACTION", tok, dev.live().cid if dev.live() else None)
                    if flavour == "asyncio":
                        async def _d():
                            gw.tasks.transport.disconnect()
                        on_loop(_d)
                    else:
                        gw.tasks.transport.disconnect()
                    disconnected = True
                    time.sleep(2.2 * rt)
            if hold:
                time.sleep(hold)
            log.add("STOPPING")
            if flavour == "asyncio":
                on_loop(gw.stop)
                # asyncio delivers the loss of the connection closed by stop() on the next loop iterations
                async def _settle():
                    for _ in range(4):
                        await asyncio.sleep(0)
                on_loop(_settle)
            else:
                meta["stuck"] = stop_guarded(gw)
            if not meta.get("stuck"):
                log.add("STOPPED")
            time.sleep(3.2 * rt + 0.5)
            log.add("END")
            if flavour == "asyncio" and start_fut.done() and not start_fut.cancelled() and start_fut.exception() is not None:
                meta["start_raised"] = repr(start_fut.exception())[:120]
    finally:
        try:
            if other is not None:
                stop_guarded(other, budget=6.0)
        except Exception:
            pass
        threading.excepthook = old_hook
        try:
            dev.close()
        except Exception:
            pass
        if loop is not None:
            def _cancel_all():
                for t in asyncio.all_tasks(loop):
                    t.cancel()
                loop.call_later(0.05, loop.stop)
            loop.call_soon_threadsafe(_cancel_all)
            loop_thread.join(3.0)
            if not loop.is_running():
                loop.close()
        shutil.rmtree(tmp, ignore_errors=True)
    return log.snap(), meta


# ------------------------------------------------------------------------------------------------ oracle
def check_real(events, meta):
    """Count/order oracle over one real lifetime. Returns [(sig, what)]."""
    V = []
    kind, fl, rt = meta["kind"], meta["flavour"], meta["rt"]
    tag = f"{kind}:{fl}"
    D = 6 * rt + 4.0
    made = [e for e in events if e[1] == "MADE"]
    lost = [e for e in events if e[1] == "LOST"]
    ok = [e for e in events if e[1] == "CONNECT-END" and e[2] == "ok"]
    i_stopped = next((i for i, e in enumerate(events) if e[1] == "STOPPED"), None)
    i_stopping = next((i for i, e in enumerate(events) if e[1] == "STOPPING"), len(events))
    for e in made:
        if e[2] is not True:
            V.append(("real:made-callback-shape", f"on_conn_made not called as (gateway): {e}"))
    for e in lost:
        if e[2] is not True:
            V.append(("real:lost-callback-shape", f"on_conn_lost not called as (gateway, error): {e}"))
    if i_stopped is None:
        V.append((f"real:stop-did-not-return:{tag}", "stop() never returned"))
        return V
    t_started = next((float(e[0]) for e in events if e[1] == "STARTED"), None)
    t_stopping = next((float(e[0]) for e in events if e[1] == "STOPPING"), None)
    if (t_started is not None and t_stopping is not None and t_stopping - t_started > D
            and not any(e[1] == "CONNECT-BEGIN" for e in events[:i_stopping])):
        V.append((f"real:never-dialled-after-start:{tag}", f"the gateway was started and ran for {t_stopping - t_started:.1f} s without a single connect attempt"))
    if len(made) != len(ok):
        V.append((f"real:made-count:{'more' if len(made) > len(ok) else 'fewer'}:{tag}", f"{len(ok)} connections established, on_conn_made called {len(made)} times"))
    if len(lost) != len(ok):
        V.append((f"real:lost-count:{'more' if len(lost) > len(ok) else 'fewer'}:{tag}",
                  f"{len(ok)} connections established and all of them over after stop(), on_conn_lost called {len(lost)} times"))
    # a reconnect attempt (and the lost callback) follows every loss the user did not request
    user_off = next((i for i, e in enumerate(events) if e[1] == "ACTION" and e[2] == "disconnect"), None)
    horizon = min(x for x in (user_off, i_stopping) if x is not None)
    for i, e in enumerate(events[:horizon]):
        if e[1] == "ACTION" and e[2] in ("loss-eof", "loss-rst", "unplug", "down", "silence") and e[3] is not None:
            t0 = e[0]
            t_h = events[horizon][0] if horizon < len(events) else events[-1][0]
            if t0 + D > t_h:
                continue
            if not [x for x in events[i + 1:horizon] if x[1] == "CONNECT-BEGIN" and x[0] <= t0 + D]:
                V.append((f"real:no-reconnect-after:{e[2]}:{tag}", f"{e[2]} at t={t0}: no connect attempt within {D:.1f}s (rt={rt})"))
            if not [x for x in events[i + 1:horizon] if x[1] == "LOST" and x[0] <= t0 + D]:
                V.append((f"real:no-lost-callback-after:{e[2]}:{tag}", f"{e[2]} at t={t0}: on_conn_lost not called within {D:.1f}s (rt={rt})"))
    # retries repeat at the configured interval while the device is away
    for i, e in enumerate(events[:horizon]):
        if e[1] == "ACTION" and e[2] == "down" and e[3] is not None:
            j = next((k for k in range(i + 1, len(events)) if events[k][1] == "ACTION" and events[k][2] == "up"), None)
            if j is None:
                continue
            fails = [x for x in events[i + 1:j] if x[1] == "CONNECT-END" and x[2] == "fail"]
            if len(fails) < 2:
                V.append((f"real:retry-missing:{tag}", f"device away for {events[j][0] - e[0]:.2f}s (rt={rt}): only {len(fails)} failed connect attempts"))
            seq = [x for x in events[i + 1:j] if x[1] in ("CONNECT-BEGIN", "CONNECT-END")]
            for a, b in zip(seq, seq[1:]):
                if a[1] == "CONNECT-END" and a[2] == "fail" and b[1] == "CONNECT-BEGIN":
                    gap = b[0] - a[0]
                    if gap < rt - 0.05:
                        V.append((f"real:retry-spacing:early:{tag}", f"retry {gap:.3f}s after a failed attempt (rt={rt})"))
                    elif gap > rt + 2.0:
                        V.append((f"real:retry-spacing:late:{tag}", f"retry {gap:.3f}s after a failed attempt (rt={rt})"))
    # user-requested disconnect: no reconnect
    if user_off is not None:
        after = [x for x in events[user_off + 1:i_stopping] if x[1] == "CONNECT-BEGIN"]
        if after:
            V.append((f"real:reconnect-after-user-disconnect:{tag}", f"user disconnect at t={events[user_off][0]}, connect attempt at t={after[0][0]}"))
    # nothing after stop() returned
    for e in events[i_stopped + 1:]:
        if e[1] in ("MADE", "LOST", "CONNECT-BEGIN", "ACCEPT", "RX"):
            V.append((f"real:activity-after-stop:{e[1]}:{tag}", f"stop() returned at t={events[i_stopped][0]}, then {e[:3]}"))
            break
    # every request on a made connection is answered
    for i, e in enumerate(events):
        if e[1] == "ACTION" and e[2] == "traffic" and e[3] is not None:
            if not [x for x in events[i + 1:] if x[1] == "RX" and b";255;3;0;6;" in x[3] and x[0] <= e[0] + 5.0]:
                V.append((f"real:request-unanswered:{tag}", f"config request at t={e[0]} on connection {e[3]} not answered within 5s"))
    # a link whose device answers the probes is never dropped
    if kind == "tcp" and meta.get("answer"):
        for i, e in enumerate(events[:horizon]):
            if e[1] == "PEER-CLOSED":
                why = [x for x in events[:i] if (x[1] == "ACTION" and x[2] in ("loss-eof", "loss-rst", "down", "silence") and x[3] == e[2])
                       or (x[1] == "DEV-DROP" and x[2] == e[2])]
                if not why:
                    V.append((f"real:healthy-link-dropped:{tag}", f"connection {e[2]} was closed by the library at t={e[0]} although every probe was answered (rt={rt})"))
    # silent link: dropped no earlier than 2 x rt after the last answer / the connect, and re-dialled
    for i, e in enumerate(events[:horizon]):
        if e[1] == "ACTION" and e[2] == "silence" and e[3] is not None:
            cid = e[3]
            acc = next((x[0] for x in events if x[1] == "ACCEPT" and x[2] == cid), e[0])
            answers = [x[0] for x in events[:i] if x[1] == "ANSWER" and x[2] == cid]
            t_ref = max([acc] + answers)
            drop = next((x for x in events[i + 1:] if x[1] == "PEER-CLOSED" and x[2] == cid), None)
            if drop is None:
                V.append((f"real:silent-link-not-dropped:{tag}", f"link silent since t={t_ref} (rt={rt}) was never dropped"))
            elif drop[0] < t_ref + 2 * rt - 0.15:
                V.append((f"real:silent-link-dropped-early:{tag}", f"link silent since t={t_ref} dropped at t={drop[0]}, earlier than 2 x rt={2 * rt}"))
            elif drop[0] > max(t_ref, e[0]) + 3 * rt + 3.0:
                V.append((f"real:silent-link-not-dropped:{tag}", f"link silent since t={t_ref} (rt={rt}) dropped only at t={drop[0]}"))
    for n, tname, msg in meta.get("thread_errors", []):
        if str(n).startswith("_poll_queue"):
            V.append((f"real:thread-died:{tname}:{tag}", f"the poll thread died: {tname}: {msg}"))
        else:
            meta["other_thread_errors"] = meta.get("other_thread_errors", 0) + 1
    for msg in meta.get("loop_errors", []):
        V.append((f"real:loop-error:{tag}", f"unhandled error in the event loop: {msg}"))
    return V


# ------------------------------------------------------------------------------------------------ C16 stress
def run_stress(kind, seed, churn_s=2.0, producers=3, rt=0.05, pace=(0.003, 0.01, 0.03, 0.08)):
    """Real threaded gateway, real device: producer threads queue uniquely numbered commands while the device keeps
    killing the connection; afterwards the link is left alone and a final batch is queued.
    Returns dict(received=[(cid, id)], queued={p: n}, final=[ids], errors=[...], events=log)."""
    import random
    import mysensors.gateway_serial as mgs
    import mysensors.gateway_tcp as mgt

    rng = random.Random(seed)
    log = Log()
    tmp = tempfile.mkdtemp(prefix="vf-stress-")
    errors = []
    old_hook = threading.excepthook

    def hook(args):
        if not (args.thread and args.thread.name.startswith(("dev-", "vf-"))):
            errors.append((_thread_role(args), type(args.exc_value).__name__, str(args.exc_value)[:120],
                           _where(args)))

    threading.excepthook = hook
    dev = TcpDevice(log, True) if kind == "tcp" else PtyDevice(log, tmp)
    out = {"kind": kind, "seed": seed, "errors": errors}
    old_socket = mgt.socket
    try:
        if kind == "tcp":
            # the library's own connect call is observed (see check_churn_callbacks)
            mgt.socket = _Proxy(socket, create_connection=_logged(log, socket.create_connection))
            gw = mgt.TCPGateway("127.0.0.1", port=dev.port, protocol_version="2.2", reconnect_timeout=rt)
        else:
            gw = mgs.SerialGateway(dev.link, protocol_version="2.2", reconnect_timeout=rt, timeout=0.1)
        gw.on_conn_made = lambda *a: log.add("MADE", True)
        gw.on_conn_lost = lambda *a: log.add("LOST", True, None)
        gw.start()
        log.wait(lambda: log.count("MADE") >= 1, 5.0, "first connection")
        stop_prod = threading.Event()
        counts = {}

        def producer(p):
            n = 0
            r = random.Random(seed * 31 + p)
            while not stop_prod.is_set():
                n += 1
                line = f"9;{p};1;0;24;{p * 1000000 + n}\n"
                gw.tasks.add_job(str, line)
                counts[p] = n
                time.sleep(r.choice([0.0, 0.0005, 0.002]))

        threads = [threading.Thread(target=producer, args=(p,), daemon=True, name=f"vf-prod-{p}") for p in range(1, producers + 1)]
        for t in threads:
            t.start()
        t_end = time.monotonic() + churn_s
        drops = 0
        while time.monotonic() < t_end:
            time.sleep(rng.choice(pace))
            if dev.live() is not None:
                if kind == "tcp":
                    dev.drop(rng.choice(["rst", "eof"]))
                else:
                    dev.drop("unplug")
                    time.sleep(0.01)
                    dev.up()
                drops += 1
        stop_prod.set()
        for t in threads:
            t.join(2.0)
        out["drops"] = drops
        # faults stop here: the link must come back and carry commands again
        n_made = log.count("MADE")
        settled = log.wait(lambda: dev.live() is not None and (getattr(dev.live(), "peer_open", True)) and log.count("MADE") >= 1
                           and log.count("MADE") > log.count("LOST"), 10 * rt + 5.0, "link re-established after the churn")
        time.sleep(0.3)
        log.add("ACTION", "final-batch", None)
        final = []
        for k in range(20):
            for p in range(1, producers + 1):
                i = p * 1000000 + 900000 + k
                final.append(i)
                gw.tasks.add_job(str, f"9;{p};1;0;24;{i}\n")
        want = set(final)

        def got_final():
            seen = set()
            for e in log.snap():
                if e[1] == "RX":
                    for part in e[3].split(b"\n"):
                        f = part.split(b";")
                        if len(f) == 6 and f[5].isdigit():
                            seen.add(int(f[5]))
            return want <= seen

        out["final_delivered"] = log.wait(got_final, 8.0, "final batch delivered")
        out["settled"] = settled
        log.add("STOPPING")
        out["stuck"] = stop_guarded(gw)
        if out["stuck"] is None:
            log.add("STOPPED")
        time.sleep(0.3)
        out["queued"] = dict(counts)
        out["final"] = final
    finally:
        mgt.socket = old_socket
        threading.excepthook = old_hook
        try:
            dev.close()
        except Exception:
            pass
        shutil.rmtree(tmp, ignore_errors=True)
    out["events"] = log.snap()
    return out


def check_stress(out):
    """Commands queued from several threads: each written at most once, complete, in queue order per producer; the pump
    survives; once the faults stop every queued command is written."""
    V = []
    kind = out["kind"]
    per_conn = {}
    for e in out["events"]:
        if e[1] == "RX":
            per_conn.setdefault(e[2], bytearray()).extend(e[3])
    seen = {}
    order = {}
    garbled = 0
    for cid, buf in sorted(per_conn.items()):
        parts = bytes(buf).split(b"\n")
        for part in parts[:-1]:            # the last element is an unterminated tail (cut by the connection's end)
            if not part or b";255;3;0;2;" in part + b";":
                continue
            f = part.split(b";")
            if len(f) != 6 or f[:1] != [b"9"] or f[2:5] != [b"1", b"0", b"24"] or not f[5].isdigit():
                garbled += 1
                V.append((f"real-stress:garbled-command:{kind}", f"connection {cid} received {part[:60]!r}, not one complete queued command"))
                continue
            i = int(f[5])
            seen[i] = seen.get(i, 0) + 1
            order.setdefault(i // 1000000, []).append(i)
    dup = [i for i, n in seen.items() if n > 1]
    if dup:
        V.append((f"real-stress:command-written-twice:{kind}", f"{len(dup)} commands were received twice by the device, e.g. {dup[:3]}"))
    for p, ids in order.items():
        if ids != sorted(ids):
            k = next(j for j in range(1, len(ids)) if ids[j] < ids[j - 1])
            V.append((f"real-stress:queue-order:{kind}", f"producer {p}: command {ids[k]} was written after {ids[k - 1]}"))
    for n, tname, msg, where in out["errors"]:
        if str(n).startswith("_poll_queue"):
            V.append((f"real-stress:pump-died:{tname}@{where[-1] if where else '?'}:{kind}", f"the poll thread died: {tname}: {msg} at {where}"))
    if out.get("settled") and not out.get("final_delivered"):
        missing = [i for i in out.get("final", []) if i not in seen]
        V.append((f"real-stress:commands-dropped-on-a-stable-link:{kind}",
                  f"after the faults stopped and the link was re-established, {len(missing)} of {len(out.get('final', []))} queued commands never reached the device"))
    if not out.get("settled"):
        V.append((f"real-stress:link-not-re-established:{kind}", "the link was not re-established after the faults stopped"))
    if out.get("stuck"):
        inner = sorted({st[-1][1] for st in out["stuck"].values()})
        V.append((f"real-stress:threads-blocked-for-good:{'+'.join(inner)}:{kind}",
                  f"stop() had not returned after 12 s and these threads did not move for three more seconds: "
                  + "; ".join(f"{n}: " + " <- ".join(f"{fi}:{ln} {fn}" for fi, fn, ln in reversed(st)) for n, st in sorted(out["stuck"].items()))))
    out["stats"] = {"received": sum(seen.values()), "distinct": len(seen), "queued": sum(out.get("queued", {}).values()), "drops": out.get("drops", 0),
                    "connections": len(per_conn), "other_thread_errors": sum(1 for e in out["errors"] if not str(e[0]).startswith("_poll_queue"))}
    return V


def run_stress_async(kind, seed, churn_s=2.0, producers=3, rt=0.05, pace=(0.003, 0.01, 0.03, 0.08)):
    """The asyncio gateways under the same connection churn (commands are queued onto the loop from producer threads
    with call_soon_threadsafe). Same result shape as run_stress, plus callback and accept counts."""
    import random
    import mysensors.gateway_serial as mgs
    import mysensors.gateway_tcp as mgt

    rng = random.Random(seed)
    log = Log()
    tmp = tempfile.mkdtemp(prefix="vf-astress-")
    dev = TcpDevice(log, True) if kind == "tcp" else PtyDevice(log, tmp)
    loop = asyncio.new_event_loop()
    loop_errors = []
    fatal = [0]

    def on_loop_error(lp, ctx):
        if ctx.get("transport") is not None and str(ctx.get("message", "")).startswith("Fatal"):
            fatal[0] += 1
            return
        loop_errors.append(repr(ctx.get("exception") or ctx.get("message"))[:160])

    loop.set_exception_handler(on_loop_error)
    if kind == "tcp":
        # what the library's own connect call returned: an attempt it abandoned (its time-out firing after the kernel had
        # completed the handshake) is accepted by the device but is not an established connection
        loop.create_connection = _logged_async(log, loop.create_connection)
    th = threading.Thread(target=loop.run_forever, daemon=True, name="vf-loop")
    th.start()
    out = {"kind": kind, "seed": seed, "errors": [], "loop_errors": loop_errors}

    def on_loop(coro_fn, timeout=30.0):
        return asyncio.run_coroutine_threadsafe(coro_fn(), loop).result(timeout)

    try:
        async def build():
            if kind == "tcp":
                return mgt.AsyncTCPGateway("127.0.0.1", port=dev.port, protocol_version="2.2", reconnect_timeout=rt)
            return mgs.AsyncSerialGateway(dev.link, protocol_version="2.2", reconnect_timeout=rt)

        gw = on_loop(build)
        gw.on_conn_made = lambda *a: log.add("MADE", True)
        gw.on_conn_lost = lambda *a: log.add("LOST", True, None)
        asyncio.run_coroutine_threadsafe(gw.start(), loop)
        log.wait(lambda: log.count("MADE") >= 1, 5.0, "first connection")
        stop_prod = threading.Event()
        counts = {}

        def producer(p):
            n = 0
            r = random.Random(seed * 31 + p)
            while not stop_prod.is_set():
                n += 1
                loop.call_soon_threadsafe(gw.tasks.add_job, str, f"9;{p};1;0;24;{p * 1000000 + n}\n")
                counts[p] = n
                time.sleep(r.choice([0.0005, 0.002, 0.004]))

        threads = [threading.Thread(target=producer, args=(p,), daemon=True, name=f"vf-prod-{p}") for p in range(1, producers + 1)]
        for t in threads:
            t.start()
        t_end = time.monotonic() + churn_s
        drops = 0
        while time.monotonic() < t_end:
            time.sleep(rng.choice(pace))
            if dev.live() is not None:
                if kind == "tcp":
                    dev.drop(rng.choice(["rst", "eof"]))
                else:
                    dev.drop("unplug")
                    time.sleep(0.01)
                    dev.up()
                drops += 1
        stop_prod.set()
        for t in threads:
            t.join(2.0)
        out["drops"] = drops
        settled = log.wait(lambda: dev.live() is not None and getattr(dev.live(), "peer_open", True) and log.count("MADE") > log.count("LOST"),
                           10 * rt + 5.0, "link re-established after the churn")
        time.sleep(0.3)
        log.add("ACTION", "final-batch", None)
        final = []
        for k in range(20):
            for p in range(1, producers + 1):
                i = p * 1000000 + 900000 + k
                final.append(i)
                loop.call_soon_threadsafe(gw.tasks.add_job, str, f"9;{p};1;0;24;{i}\n")
        want = set(final)

        def got_final():
            seen = set()
            for e in log.snap():
                if e[1] == "RX":
                    for part in e[3].split(b"\n"):
                        f = part.split(b";")
                        if len(f) == 6 and f[5].isdigit():
                            seen.add(int(f[5]))
            return want <= seen

        out["final_delivered"] = log.wait(got_final, 8.0, "final batch delivered")
        out["settled"] = settled
        log.add("STOPPING")
        on_loop(gw.stop)

        async def _settle():
            for _ in range(4):
                await asyncio.sleep(0)
        on_loop(_settle)
        log.add("STOPPED")
        time.sleep(0.3)
        out["queued"] = dict(counts)
        out["final"] = final
        out["transport_fatal_errors"] = fatal[0]
    finally:
        try:
            dev.close()
        except Exception:
            pass

        def _cancel_all():
            for t in asyncio.all_tasks(loop):
                t.cancel()
            loop.call_later(0.05, loop.stop)
        loop.call_soon_threadsafe(_cancel_all)
        th.join(3.0)
        if not loop.is_running():
            loop.close()
        shutil.rmtree(tmp, ignore_errors=True)
    out["events"] = log.snap()
    return out


def check_churn_callbacks(out, flavour):
    """Callback exactness over a churn run: after stop() every made connection has been reported lost exactly once, and
    (TCP) the device accepted exactly as many connections as were reported made; nothing happens after stop()."""
    V = []
    ev = out["events"]
    tag = f"{out['kind']}:{flavour}"
    i_stop = next((i for i, e in enumerate(ev) if e[1] == "STOPPED"), None)
    if i_stop is None:
        return [(f"real-churn:stop-did-not-return:{tag}", "stop() never returned")]
    made = sum(1 for e in ev if e[1] == "MADE")
    lost = sum(1 for e in ev if e[1] == "LOST")
    acc = sum(1 for e in ev if e[1] == "ACCEPT")
    if made != lost:
        V.append((f"real-churn:lost-count:{'more' if lost > made else 'fewer'}:{tag}", f"{made} connections reported made, {lost} reported lost after stop()"))
    # (TCP) made against what was established. The device's accept count is an upper bound only: a connect attempt the
    # library abandons (its own time-out firing after the kernel completed the handshake - seen on a loaded machine with
    # reconnect_timeout 0.05 s) is accepted by the device without ever being a connection of the gateway. Where the
    # library's connect call is observed, every attempt it returned from successfully must have been reported made.
    established = sum(1 for e in ev if e[1] == "CONNECT-END" and e[2] == "ok")
    observed = any(e[1] == "CONNECT-BEGIN" for e in ev)
    out["abandoned_connect_attempts"] = max(0, acc - made)
    if out["kind"] == "tcp" and made > acc:
        V.append((f"real-churn:made-count:more:{tag}", f"the device accepted {acc} connections, on_conn_made was called {made} times"))
    elif out["kind"] == "tcp" and observed and made < established:
        V.append((f"real-churn:made-count:fewer:{tag}", f"the library's connect call returned {established} connections (the device accepted {acc}), on_conn_made was called {made} times"))
    for e in ev[i_stop + 1:]:
        if e[1] in ("MADE", "LOST", "ACCEPT", "RX"):
            V.append((f"real-churn:activity-after-stop:{e[1]}:{tag}", f"stop() returned at t={ev[i_stop][0]}, then {e[:3]}"))
            break
    for msg in out.get("loop_errors", []):
        V.append((f"real-churn:loop-error:{tag}", f"unhandled error in the event loop: {msg}"))
    return V
