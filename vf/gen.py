"""Generators: Unicode payloads, integer spellings, protocol lines, histories."""
from . import spec

CATS = ["empty", "ascii", "latin1", "combining", "rtl", "astral", "nul", "midspace", "framelike",
        "long", "digits", "ctrl", "linesep", "escapes"]


def payload(rng, cat=None):
    """A payload the wire format can carry (no ';', no CR/LF, no trailing blanks)."""
    cat = cat or rng.choice(CATS)
    if cat == "empty":
        s = ""
    elif cat == "ascii":
        s = "".join(rng.choice("abcXYZ 0123456789.,:-_/+*#!?()[]{}<>=&%$@'\"\\|~^`") for _ in range(rng.randint(1, 12)))
    elif cat == "latin1":
        s = "".join(chr(rng.randint(0xA1, 0xFF)) for _ in range(rng.randint(1, 8)))
    elif cat == "combining":
        s = "".join(rng.choice(["á", "ö", "ñ", "́", "ệ"]) for _ in range(rng.randint(1, 5)))
    elif cat == "rtl":
        s = "".join(rng.choice("אבגابت‏‮") for _ in range(rng.randint(1, 8)))
    elif cat == "astral":
        s = "".join(chr(rng.choice([0x1F600, 0x1F4A9, 0x10348, 0x2F800, 0xE0001, 0x10FFFF, 0x1D7D8])) for _ in range(rng.randint(1, 5)))
    elif cat == "nul":
        s = rng.choice(["\x00", "a\x00b", "\x00\x00x", "x\x00"])
    elif cat == "midspace":
        s = rng.choice(["a b", "a\tb", "a b", "a b", "  x", "\tx", "　x", "a\x0bb", "a\x0cb", "a\x1cb", "a\x85b", "a b"])
    elif cat == "framelike":
        s = rng.choice(["1,255,3,0,6,0", "1:2:3", "12/255/3/0/2", "0|1|2|3|4|x"])
    elif cat == "long":
        s = "".join(rng.choice("abcé中") for _ in range(rng.randint(200, 3000)))
    elif cat == "digits":
        # incl. digit strings beyond what int() converts (CPython refuses more than 4300 digits with a plain ValueError)
        s = rng.choice(["0", "1", "-1", "100", "3.14", "1e9", "٣٤", "１２", "1_000", "+5", "0x1F", "9" * 4301, "1." + "9" * 4301, "-" + "7" * 5000])
    elif cat == "ctrl":
        s = "".join(chr(rng.choice([1, 2, 7, 8, 0x1b, 0x7f, 0x80, 0x9f, 0xad, 0xfeff, 0xfffd, 0xfffe])) for _ in range(rng.randint(1, 4))) + "x"
    elif cat == "escapes":
        # text that only looks like an escape, a placeholder or an entity in some other notation: it is plain payload
        parts = ["\\n", "\\r", "\\t", "\\", "\\\\", "\\0", "\\x41", "\\u0041", "\\N{BULLET}", "%0A", "%0D", "%25", "%3B", "%s", "%d",
                 "%(x)s", "{0}", "{}", "{{", "}}", "$HOME", "${x}", "&amp;", "&#59;", "&#10;", "\\;", "C:\\new\\readme.txt", "^M", "\\e[0m"]
        s = "".join(rng.choice(parts) + rng.choice(["", "", "a", " ", "n", "r"]) for _ in range(rng.randint(1, 4)))
    else:  # linesep-like characters that are not CR/LF, in the middle
        s = rng.choice(["a\x0bb", "a\x0cb", "a\x1db", "a\x1eb", "a\x85b", "a b", "a b"])
    s = s.replace(";", ",").replace("\n", "").replace("\r", "")
    while s != s.rstrip():
        s = s.rstrip() if rng.random() < 0.5 else s + "x"
    return s, cat


def carriable(p):
    return isinstance(p, str) and ";" not in p and "\n" not in p and "\r" not in p and p == p.rstrip()


INT_POOL = [0, 1, 2, 3, 4, 5, 6, 17, 22, 32, 127, 128, 254, 255, 256, 257, 1000, 32767, 32768, 65535, 65536,
            2**31 - 1, 2**31, 2**32 - 1, 2**32, 2**63 - 1, 2**63, 2**64, 2**100, -1, -2, -128, -255, -256,
            -(2**31), -(2**63), -(2**64)]


def int_value(rng):
    if rng.random() < 0.7:
        return rng.choice(INT_POOL)
    return rng.randint(-(2**40), 2**40)


SPELLINGS = ["plain", "plus", "zeros", "lblank", "rblank", "underscore", "unidigit", "fullwidth", "tabs", "nbsp"]


def spell(rng, value, kind=None):
    """A spelling of integer `value` that Python's int() accepts."""
    kind = kind or rng.choice(SPELLINGS)
    neg = value < 0
    digits = str(abs(value))
    if kind == "plain":
        s = ("-" if neg else "") + digits
    elif kind == "plus":
        s = ("-" if neg else "+") + digits
    elif kind == "zeros":
        s = ("-" if neg else "") + "0" * rng.randint(1, 4) + digits
    elif kind == "lblank":
        s = rng.choice([" ", "  ", "\t", "\x0b", "\x0c"]) + ("-" if neg else "") + digits
    elif kind == "rblank":
        s = ("-" if neg else "") + digits + rng.choice([" ", "\t", "  "])
    elif kind == "underscore":
        s = ("-" if neg else "") + ("_".join(digits) if len(digits) > 1 else digits)
    elif kind == "unidigit":
        s = ("-" if neg else "") + "".join(chr(0x0660 + int(d)) for d in digits)
    elif kind == "fullwidth":
        s = ("-" if neg else "") + "".join(chr(0xFF10 + int(d)) for d in digits)
    elif kind == "tabs":
        s = "\t" + ("-" if neg else "") + digits + "\t"
    else:
        s = " " + ("-" if neg else "") + digits + " "
    return s, kind


# ---------------------------------------------------------------------------
# protocol lines for the lock-step engine
NODES = [0, 1, 2, 3, 254, 255]
CHILDREN = [0, 1, 2, 254, 255]
PRES_CHILD_TYPES = [0, 3, 4, 6, 23, 29, 36, 38]      # door, light, dimmer, temp, custom, hvac, info, gps
SET_TYPES = [0, 2, 3, 16, 21, 22, 23, 24, 40, 44, 47, 49, 56]


def rule_payload(rng, rule, want_ok=None):
    """A payload from the rule's corpus (accepted / rejected / any)."""
    if rule is None:
        return rng.choice(["", "1", "x"])
    c = spec.corpus(rule)
    if want_ok is True:
        c = [p for p, e in c if e is True]
    elif want_ok is False:
        c = [p for p, e in c if e is False] or [p for p, e in c]
    else:
        c = [p for p, e in c]
    return rng.choice(c)


def maxsub(version, t):
    return {0: spec.MAX_PRES, 1: spec.MAX_SET, 2: spec.MAX_SET, 3: spec.MAX_INT, 4: spec.MAX_STREAM}[t][version]


FW_CFG_OK = "01000200B00626E80300"     # type 1, ver 2, blocks 0x06B0, crc, bootloader
FW_REQ_OK = "010002000100"             # type 1, ver 2, block 1


def hex_payload(rng, want):
    """Stream request payloads: well-formed or malformed hex."""
    n = 20 if want == "cfg" else 12
    k = rng.random()
    if k < 0.45:
        return "".join(rng.choice("0123456789ABCDEFabcdef") for _ in range(n))
    if k < 0.55:
        return "".join(rng.choice("0123456789ABCDEF") for _ in range(rng.choice([0, 1, 2, n - 2, n - 1, n + 1, n + 2, n + 4, 2 * n])))
    if k < 0.65:
        return "".join(rng.choice("0123456789ABCDEFGXYZ ") for _ in range(n)).strip()
    if k < 0.75:
        return rng.choice(["zz", "", "0", "xyz", "01000200", "١" * n, "g" * n, "0x" + "0" * (n - 2)])
    return FW_CFG_OK if want == "cfg" else FW_REQ_OK


def valid_line(rng, version, nodes=NODES, children=CHILDREN, unicode_frac=0.15):
    """A line that is (mostly) valid for `version`, over a small id space."""
    two = version >= "2.0"
    n = rng.choice(nodes)
    k = rng.random()
    if k < 0.10:
        pv = rng.choice([version, "1.4", "1.5", "2.0", "2.1.1", "2.2.0", "2.3.2", "abc", "1.3", "", "2"])
        if rng.random() < 0.12:
            # whatever a node (or line noise) puts where the version belongs, incl. more digits than int() converts
            pv = rng.choice([payload(rng)[0], payload(rng, "digits")[0], "9" * 4301, "1." + "9" * 4301, "2." + "0" * 4400 + "1"])
        return f"{n};255;0;{rng.choice([0, 0, 1])};{rng.choice([17, 18, 17, 6])};{pv}"
    if k < 0.26:
        pt = rng.choice([t for t in PRES_CHILD_TYPES if t <= spec.MAX_PRES[version]])
        desc = payload(rng)[0] if rng.random() < unicode_frac else rng.choice(["", "desc", "Front door"])
        return f"{n};{rng.choice([c for c in children if c != 255])};0;0;{pt};{desc}"
    if k < 0.50:
        st = rng.choice([s for s in SET_TYPES if s <= spec.MAX_SET[version]])
        rule = spec.rule_for(version, 1, st)
        if rule == "ANY" and rng.random() < unicode_frac:
            p = payload(rng)[0]
        else:
            p = rule_payload(rng, rule, True if rng.random() < 0.85 else None)
        return f"{n};{rng.choice([c for c in children if c != 255] + [255] * (rng.random() < 0.05))};1;{rng.choice([0, 0, 1])};{st};{p}"
    if k < 0.62:
        st = rng.choice([s for s in SET_TYPES if s <= spec.MAX_SET[version]])
        return f"{n};{rng.choice([c for c in children if c != 255])};2;{rng.choice([0, 1])};{st};"
    if k < 0.90:
        cands = [0, 1, 3, 6, 11, 12, 14, 9, 2, 13, 5, 8]
        if two:
            cands += [21, 22, 22, 18, 19, 20, 24, 25]
        if version >= "2.2":
            cands += [32, 32, 33]
        if version in ("2.0", "2.1"):
            cands += [22]
        st = rng.choice(cands)
        rule = spec.rule_for(version, 3, st)
        p = rule_payload(rng, rule, True if rng.random() < 0.85 else None)
        if rule == "ANY" and rng.random() < unicode_frac:
            p = payload(rng)[0]
        nn, c = n, 255
        if st == 3:
            nn = rng.choice([255, 255, n])
            c = rng.choice([255, 255, 0, 7])
        return f"{nn};{c};3;{rng.choice([0, 0, 1])};{st};{p}"
    st = rng.choice([0, 0, 2, 2, 1, 3, 4, 5])
    if st == 0:
        p = hex_payload(rng, "cfg")
    elif st == 2:
        p = hex_payload(rng, "req")
    else:
        p = rng.choice(["snd", "", "00ff"])
    return f"{n};255;4;0;{st};{p}"


def garbage_line(rng, version):
    """Arbitrary text, truncated frames, out-of-table headers."""
    k = rng.random()
    if k < 0.25:
        base = valid_line(rng, version)
        ops = rng.randint(1, 3)
        for _ in range(ops):
            m = rng.random()
            if m < 0.25 and base:
                base = base[: rng.randint(0, len(base))]
            elif m < 0.45:
                i = rng.randint(0, len(base))
                base = base[:i] + rng.choice([";", ";;", "\x00", " ", "-", "\r", "�", "9"]) + base[i:]
            elif m < 0.65:
                parts = base.split(";")
                if len(parts) > 1:
                    del parts[rng.randrange(len(parts))]
                base = ";".join(parts)
            elif m < 0.8:
                parts = base.split(";")
                i = rng.randrange(len(parts))
                parts[i] = rng.choice(["", "x", "-1", "256", "1e3", "1.0", " 1", "١", "99999999999999999999", "0x1", "None"])
                base = ";".join(parts)
            else:
                base = base + rng.choice([";", ";x", "\r", " ", ";;;"])
        return base
    if k < 0.45:
        t = rng.choice([-1, 0, 1, 2, 3, 4, 5, 9])
        top = maxsub(version, t) if t in range(5) else 3
        s = rng.choice([-1, top + 1, top + 2, rng.randint(0, top + 2), 255, 1000])
        return f"{rng.choice([-1, 0, 1, 255, 256, 300])};{rng.choice([-1, 0, 1, 254, 255, 256])};{t};{rng.choice([-1, 0, 1, 2])};{s};{rng.choice(['', '1', 'x'])}"
    if k < 0.6:
        return rng.choice(["", ";", ";;;;;", ";;;;;;", "hello", "\x00", "1;2;3", "1;2;3;4;5", "a;b;c;d;e;f", "��",
                           "1;255;3;0;9;TSF:MSG:READ,1-1-0", "0;255;3;0;9;Starting gateway (RNNGA-, 2.3.2)", " ", "\r",
                           "1;1;1;0;0", "1;1;1;0;0;1;2", "١;١;١;٠;٠;5", "1;1;1;0;;5", "1;1;;0;0;5", "255;255;255;255;255;255"])
    if k < 0.8:
        # valid header, payload violating its rule
        t = rng.choice([0, 1, 2, 3])
        s = rng.randint(0, maxsub(version, t))
        rule = spec.rule_for(version, t, s)
        p = rule_payload(rng, rule, False)
        c = 255 if t == 3 else rng.choice([0, 1, 2])
        return f"{rng.choice(NODES)};{c};{t};0;{s};{p}"
    return "".join(chr(rng.choice([rng.randint(32, 126), rng.randint(0, 0x2FF), 59, 59, 48, 49, 50])) for _ in range(rng.randint(0, 30))).replace("\n", " ")


# ---------------------------------------------------------------------------
# histories
def wake_line(rng, version, n):
    if version in ("2.0", "2.1"):
        return f"{n};255;3;0;22;{rng.randint(0, 10**6)}"
    return f"{n};255;3;0;32;{rng.choice([500, 100, 0])}"


def set_value_for(rng, version, vt, ok=True, unicode_ok=True, semicolon=False):
    rule = spec.rule_for(version, 1, vt)
    if rule is None:
        return rng.choice(["1", "x"])
    if rule == "ANY" and unicode_ok and rng.random() < 0.3:
        p = payload(rng)[0]
        if semicolon and rng.random() < 0.4:
            p = p[: len(p) // 2] + rng.choice([";", ";;", "\n", "\r\n", "a;b;c;d;e;f"]) + p[len(p) // 2:]
        return p
    return rule_payload(rng, rule, ok)


def ctl_set(rng, version, nodes=(1, 2, 3), children=(0, 1, 2), semicolon=False):
    vt = rng.choice([s for s in SET_TYPES if s <= spec.MAX_SET[version] + 1] + [spec.MAX_SET[version] + 1])
    val = set_value_for(rng, version, vt, ok=True if rng.random() < 0.8 else None, semicolon=semicolon)
    k = rng.random()
    vtx = vt if k < 0.7 else str(vt) if k < 0.9 else rng.choice(["x", None, "1.5", ""])
    if rng.random() < 0.15:
        val = rng.choice([1, 0, 50, 3.5, True, 100, -1]) if rng.random() < 0.7 else val
    kw = {"ack": rng.choice([0, 1])} if rng.random() < 0.2 else {}
    return ["set", rng.choice(nodes), rng.choice(children), vtx, val, kw]


def fw_image(rng, small=True):
    n = rng.choice([1, 15, 16, 17, 100, 127, 128, 129, 200, 256]) if small else rng.randint(1, 4000)
    return bytes(rng.getrandbits(8) for _ in range(n)).hex()


def sk_sleep(rng, version):
    """Directed skeleton for smart sleep (>= 2.0): held items of several kinds, desired values, late child."""
    n = rng.choice([1, 2, 3])
    other = rng.choice([x for x in (1, 2, 3) if x != n])
    c1, c2 = rng.sample([0, 1, 2], 2)
    vt1 = rng.choice([2, 3, 23, 24, 47])
    vt2 = rng.choice([0, 24, 16])
    v1a, v1b, v1c = (set_value_for(rng, version, vt1, unicode_ok=False) for _ in range(3))
    pv = rng.choice([version, "1.4", "1.5", "2.0", None])
    st = []
    if pv is None:
        st.append(["in", "255;255;3;0;3;"])   # id-assigned node, never presented
        n = None
    else:
        st.append(["in", f"{n};255;0;0;17;{pv}"])
    st.append(["in", f"{other};255;0;0;17;{version}"])
    st.append(["in", f"{other};1;0;0;6;other"])
    return n, other, c1, c2, vt1, vt2, (v1a, v1b, v1c), st


def history(rng, version, length, profile):
    """profile: dict(garbage, ctl, semicolon, sleep, ota, idreq, fwrange)."""
    two = version >= "2.0"
    st = []
    nodes = [1, 2, 3]
    # a third of the histories (when the profile asks for it) send the node table through the persistence file and back
    reload_hist = bool(profile.get("reload")) and rng.random() < 0.34
    if profile.get("sleep") and two and rng.random() < 0.8:
        n = rng.choice(nodes)
        other = rng.choice([x for x in nodes if x != n])
        c1, c2 = rng.sample([0, 1, 2], 2)
        vt1 = rng.choice([2, 3, 23, 24, 47, 22])
        vt2 = rng.choice([0, 24, 16, 1, 1])      # incl. V_HUM (1): the same number as I_TIME among the internal sub-types
        vals = [set_value_for(rng, version, vt1, unicode_ok=False) for _ in range(3)]
        pv = rng.choice([version, "1.4", "1.5", "2.0", "2.2"])
        if rng.random() < 0.5 and pv in spec.VERSIONS and spec.rule_for(pv, 1, vt1) is not None:
            # the controller asks for a value that is valid under the table of the version the NODE presented
            vals[1] = set_value_for(rng, pv, vt1, unicode_ok=False)
        if profile.get("semicolon") and vt1 in (24, 47) and rng.random() < 0.4:
            # arbitrary text: the wire format cannot carry it, but no call that returned normally may break the pump later
            vals[1] = rng.choice(["a;b", ";", "1;2;3;4;5;6", "x;\ny", "5;", ";;;;;"])
        ptype = {2: 3, 3: 4, 23: 16, 24: 23, 47: 36, 22: 29}[vt1]
        st += [["in", f"{n};255;0;0;17;{pv}"], ["in", f"{other};255;0;0;17;{version}"], ["in", f"{other};1;0;0;6;o"],
               ["in", f"{other};1;1;0;0;20.5"],
               ["in", f"{n};{c1};0;0;{ptype};first"], ["in", f"{n};{c1};1;0;{vt1};{vals[0]}"],
               ["in", wake_line(rng, version, n)],
               ["set", n, c1, rng.choice([vt1, str(vt1)]), vals[1], {}],
               ["in", f"{n};255;3;0;6;0"], ["in", f"{n};255;3;0;1;"],
               ["in", f"{other};255;3;0;6;0"], ["in", f"{other};1;2;0;0;"],
               ["in", f"{n};{c1};2;0;{vt1};"],
               ["in", f"{n};{c2};0;0;23;late"], ["in", f"{n};{c2};1;0;{vt2};{set_value_for(rng, version, vt2, unicode_ok=False)}"],
               ["in", f"{n};{c2};2;0;{vt2};"],
               ["set", n, c2, vt2, set_value_for(rng, version, vt2, unicode_ok=False), {}],
               ["in", f"{n};9;1;0;0;1"],
               ["in", wake_line(rng, version, n)],
               ["in", wake_line(rng, version, n)],
               ["set", n, c2, vt2, set_value_for(rng, version, vt2, unicode_ok=False), {}],
               ["in", f"{n};{c1};1;0;{vt1};{vals[2]}"],
               ["in", wake_line(rng, version, n)]]
        if profile.get("cbset") and rng.random() < 0.5:
            # the controller answers the sleeping node's last report from inside the event callback (same child and type)
            idx = max(i for i, x in enumerate(st) if x[0] == "in" and x[1].startswith(f"{n};{c1};1;0;{vt1};"))
            st[idx:idx] = [["cbset"]]
            st += [["in", f"{n};{c1};2;0;{vt1};"], ["in", wake_line(rng, version, n)]]
        # randomly drop a few skeleton steps so the shapes vary
        st = [s for s in st if rng.random() < 0.9]
    if profile.get("ota") and rng.random() < 0.8:
        n = rng.choice(nodes)
        m = rng.choice([x for x in nodes if x != n])
        ft, fv = rng.choice([0, 1, 255, 256, 65535]), rng.choice([0, 1, 2, 65535])
        img = fw_image(rng)
        nblocks = (len(bytes.fromhex(img)) + 127) // 128 * 8
        cfg = f"{ft:04x}"[2:] + f"{ft:04x}"[:2]
        def w(x):
            return f"{x & 0xff:02X}{(x >> 8) & 0xff:02X}"
        cfgp = w(ft) + w(fv) + w(5) + w(0x1234) + w(0x0101)
        def blk(i, t=ft, v=fv):
            return w(t) + w(v) + w(i)
        st += [["in", f"{n};255;0;0;17;{version}"], ["in", f"{n};1;0;0;3;light"], ["in", f"{m};255;0;0;17;{version}"],
               ["in", f"{n};255;4;0;0;{cfgp}"],
               # type and version as integers or as what int() turns into them (from a configuration file: "1", 1.0)
               ["fw", rng.choice([n, [n], [n, m], [n, 77]])] + rng.choice([[ft, fv]] * 5 + [[str(ft), str(fv)], [float(ft), fv], [ft, f" {fv}"]]) + [img],
               ["in", f"{n};1;1;0;2;1"], ["in", f"{n};255;4;0;2;{blk(0)}"],
               ["in", f"{n};255;0;0;17;{version}"], ["in", f"{n};1;1;0;2;0"],
               ["in", f"{n};255;4;0;0;{cfgp}"], ["in", f"{n};255;4;0;0;{hex_payload(rng, 'cfg')}"], ["in", f"{n};255;4;0;0;{cfgp}"],
               ["in", f"{n};255;4;0;2;{blk(rng.randrange(nblocks))}"], ["in", f"{n};255;4;0;2;{hex_payload(rng, 'req')}"],
               ["in", f"{n};255;4;0;2;{blk(nblocks - 1)}"], ["in", f"{n};255;4;0;2;{blk(nblocks + rng.choice([0, 1, 7, 8, 100]))}"],
               ["in", f"{n};255;4;0;2;{blk(0, ft ^ 1)}"],
               ["in", f"{n};255;4;0;0;{cfgp}"],
               ["in", f"{m};255;4;0;0;{cfgp}"], ["in", f"{m};255;4;0;2;{blk(0)}"],
               ["fw", n, ft, fv, None], ["in", f"{n};255;4;0;0;{cfgp}"], ["in", f"{n};255;4;0;2;{blk(1)}"]]
        if rng.random() < 0.3:
            # another build under the same type and version is scheduled for the OTHER node only, after this node has
            # started (or finished) fetching: this node's config requests stay unanswered
            st += [["in", f"{n};255;4;0;2;{blk(0)}"], ["fw", rng.choice([m, [m]]), ft, fv, fw_image(rng)],
                   ["in", f"{n};255;0;0;17;{version}"], ["in", f"{n};255;4;0;0;{cfgp}"], ["in", f"{m};255;4;0;0;{cfgp}"],
                   ["in", f"{n};255;4;0;0;{cfgp}"]]
        st = [s for s in st if rng.random() < 0.9]
        if rng.random() < 0.5:
            # a malformed block request right after the first config answer (before any valid block request), then config again
            idx = next((i for i, x in enumerate(st) if x[0] == "in" and x[1] == f"{n};255;4;0;0;{cfgp}" and any(y[0] == "fw" for y in st[:i])), None)
            if idx is not None:
                bad = rng.choice(["", "0", "zz", blk(0)[:-1], blk(0) + "0", blk(0)[:8], "g" * 12])
                st[idx + 1:idx + 1] = [["in", f"{n};255;4;0;2;{bad}"], ["in", f"{n};255;4;0;0;{cfgp}"]]
        if rng.random() < 0.35:
            # in the middle of the session the controller calls update_fw with a FILE that carries no firmware, for the same
            # (type, version), naming this node, the other node or an unpresented one: nothing may change
            pos = rng.randrange(4, len(st) + 1)
            st[pos:pos] = [["fw", rng.choice([n, m, [n, m], 9]), ft, fv, "FILE:" + rng.choice(["eof-only", "address-only", "blank", "empty", "missing"])],
                           ["in", f"{rng.choice([n, m])};1;1;0;2;1"], ["in", f"{m};255;4;0;0;{cfgp}"], ["in", f"{n};255;4;0;2;{blk(0)}"]]
        if profile.get("cbfw") and rng.random() < 0.4:
            # the controller schedules the update from inside the event callback of the node's own presentation; the node
            # then reports a value (reboot request expected), presents again and asks for the firmware
            st += [["cbfw", ft, fv, img], ["in", f"{n};255;0;0;17;{version}"], ["in", f"{n};1;1;0;2;1"], ["in", f"{n};1;1;0;2;0"],
                   ["in", f"{n};255;0;0;17;{version}"], ["in", f"{n};255;4;0;0;{cfgp}"], ["in", f"{n};255;4;0;2;{blk(0)}"]]
        if rng.random() < 0.4:
            # the update is scheduled again after the firmware was offered and before any block was fetched: the session
            # starts over - a block request is only served after a new config request
            st += [["fw", n, ft, fv, None], ["in", f"{n};255;4;0;0;{cfgp}"], ["fw", rng.choice([n, [n]]), ft, fv, rng.choice([None, img])],
                   ["in", f"{n};255;4;0;2;{blk(2 % nblocks)}"], ["in", f"{n};255;4;0;0;{cfgp}"], ["in", f"{n};255;4;0;2;{blk(2 % nblocks)}"]]
        if rng.random() < 0.3:
            # the controller updates from a hex FILE; later the file at that path is replaced by garbage of the same size and
            # modification time and another update is requested from it (for another node / version): nothing may change
            fv2 = (fv + 1) % 65536
            st[4:4] = [["fw", [n], ft, fv, "HEXFILE:" + img]]
            pos = rng.randrange(6, len(st) + 1)
            st[pos:pos] = [["fw", rng.choice([m, [m], [n, m]]), ft, fv2, "HEXFILE:garbage"], ["in", f"{m};1;1;0;2;1"],
                           ["in", f"{m};255;4;0;0;{w(ft) + w(fv2) + w(5) + w(0x1234) + w(0x0101)}"], ["in", f"{m};255;4;0;2;{blk(0, ft, fv2)}"]]
        if rng.random() < 0.5:
            # the node restarts without ever asking for the firmware; the controller schedules the same update again
            extra = [["fw", [n], ft, fv, img if rng.random() < 0.3 else None], ["in", f"{n};255;0;0;17;{version}"],
                     ["fw", rng.choice([n, [n, m]]), ft, fv, None], ["in", f"{n};1;1;0;2;1"], ["in", f"{n};1;1;0;2;0"],
                     ["in", f"{n};255;0;0;17;{version}"], ["in", f"{n};1;1;0;2;1"]]
            pos = rng.choice([4, len(st)])
            st[pos:pos] = extra if pos == len(st) else []
            if pos != len(st):
                st += extra
    while len(st) < length:
        k = rng.random()
        if k < profile.get("garbage", 0.15):
            st.append(["in", garbage_line(rng, version)])
        elif k < profile.get("garbage", 0.15) + profile.get("ctl", 0.12):
            m = rng.random()
            if m < 0.7:
                cs = ctl_set(rng, version, semicolon=profile.get("semicolon", False))
                st.append(cs)
                if rng.random() < 0.3 and isinstance(cs[4], str) and ";" not in cs[4] and str(cs[3]).isdigit():
                    # the node confirms the command by sending it back (as it does for commands that ask for an ack),
                    # or simply reports the commanded value: an accepted report like any other
                    if rng.random() < 0.6:
                        cs[5] = {"ack": 1}
                    st.append(["in", f"{cs[1]};{cs[2]};1;{rng.choice([1, 1, 0])};{int(cs[3])};{cs[4]}"])
            elif m < 0.85 and profile.get("ota"):
                ft, fv = rng.choice([0, 1, 2]), rng.choice([0, 1])
                if profile.get("fwrange") and rng.random() < 0.3:
                    ft = rng.choice([-1, 65536, 70000, 2**32, "x", "7"])
                img = fw_image(rng) if rng.random() < 0.6 else None
                if rng.random() < 0.12:
                    img = "FILE:" + rng.choice(["eof-only", "address-only", "blank", "empty", "missing"])
                st.append(["fw", rng.choice([1, 2, [1, 2], 9, [3, 9]]), ft, fv, img])
            elif m < 0.92:
                st.append(["metric", rng.random() < 0.5])
            elif profile.get("cbset") and rng.random() < 0.6:
                st.append(["cbset"])
            elif profile.get("cbraise"):
                st.append(["cbraise", rng.random() < 0.5])
        elif k < 0.9 or not two:
            st.append(["in", valid_line(rng, version, unicode_frac=profile.get("unicode", 0.15))])
        else:
            st.append(["in", wake_line(rng, version, rng.choice(nodes))])
        if profile.get("lag") and rng.random() < 0.08:
            st.append(["lag", rng.randint(1, 4)])
        if profile.get("reload") and reload_hist and rng.random() < profile["reload"]:
            st.append([rng.choice(["reload", "save", "save"]), rng.choice(["json", "pickle", "pickle"])])
    return st
