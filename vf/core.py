"""Shared plumbing: repo selection, seeds, hashing, violation records."""
import hashlib
import json
import logging
import os
import random
import sys
import tempfile

# Scratch directories (persistence files, fake devices): a memory file system when there is one. The library fsyncs every
# save and an fsync on the disk of this sandbox takes 30-70 ms, which is most of the run time of the persistence checks;
# directory semantics (rename, unlink, link) are the same. VF_TMP overrides.
DISK_TMP = tempfile.gettempdir()          # for the few jobs that want saves to take as long as they do on a disk
_scratch = os.environ.get("VF_TMP") or ("/dev/shm" if os.path.isdir("/dev/shm") and os.access("/dev/shm", os.W_OK | os.X_OK) else None)
if _scratch:
    tempfile.tempdir = _scratch

VERIF = os.path.dirname(os.path.dirname(os.path.abspath(__file__)))
REPO = os.path.abspath(os.environ.get("VERIF_REPO", "/repo"))
PY = "/venv/bin/python"
DEPS = os.path.join(VERIF, ".deps")


def use_repo():
    """Make `import mysensors` resolve to REPO's working tree (not a cached copy)."""
    if sys.path[0] != REPO:
        sys.path.insert(0, REPO)
    if os.path.isdir(DEPS) and DEPS not in sys.path:
        sys.path.append(DEPS)
    # keep the library (and everything else) quiet without switching logging off: the library's log level is one of the
    # things the workers vary (a handler-less logger would fall back to printing warnings on stderr)
    root = logging.getLogger()
    if not any(isinstance(h, logging.NullHandler) for h in root.handlers):
        root.addHandler(logging.NullHandler())
    lib = logging.getLogger("mysensors")
    if not any(isinstance(h, logging.NullHandler) for h in lib.handlers):
        lib.addHandler(logging.NullHandler())
    lib.propagate = False
    import mysensors  # noqa

    got = os.path.dirname(os.path.dirname(os.path.abspath(mysensors.__file__)))
    if got != REPO:
        raise RuntimeError(f"mysensors imported from {got}, expected {REPO}")
    return mysensors


def seed_env():
    try:
        return int(os.environ.get("VERIF_SEED", "0"))
    except ValueError:
        return 0


def rng_for(*parts):
    h = hashlib.sha256(repr(parts).encode()).digest()
    return random.Random(int.from_bytes(h[:8], "big"))


def h(obj):
    """Short stable hash of a JSON-able / repr-able normal form."""
    try:
        s = json.dumps(obj, sort_keys=True, default=repr)
    except TypeError:
        s = repr(obj)
    return hashlib.sha1(s.encode("utf-8", "surrogatepass")).hexdigest()[:12]


class Result:
    """Accumulates what one worker job observed."""

    def __init__(self):
        self.evals = 0
        self.distinct = set()
        self.counters = {}
        self.sets = {}
        self.violations = []
        self.samples = []
        self.notes = []

    def count(self, key, n=1):
        self.counters[key] = self.counters.get(key, 0) + n

    def add_set(self, key, value):
        self.sets.setdefault(key, set()).add(value)

    def nontrivial(self, normal_form):
        self.distinct.add(h(normal_form))

    def sample(self, case, limit=3):
        if len(self.samples) < limit:
            self.samples.append(case)

    def violation(self, sig, what, case, limit=40):
        """sig: mechanism signature (no seeds / concrete random values)."""
        self.count("violations_raw")
        for v in self.violations:
            if v["sig"] == sig:
                v["n"] += 1
                return
        if len(self.violations) < limit:
            self.violations.append({"sig": sig, "what": what, "case": case, "n": 1})

    def dump(self):
        return {
            "evals": self.evals,
            "distinct": sorted(self.distinct),
            "counters": self.counters,
            "sets": {k: sorted(v, key=repr) for k, v in self.sets.items()},
            "violations": self.violations,
            "samples": self.samples,
            "notes": self.notes,
        }


def exc_sig(exc):
    """Mechanism signature of an exception: type + innermost repo frame function."""
    import traceback

    tb = traceback.extract_tb(exc.__traceback__)
    where = "?"
    for fr in reversed(tb):
        if "/mysensors/" in fr.filename:
            where = f"{os.path.basename(fr.filename)[:-3]}.{fr.name}"
            break
    return f"{type(exc).__name__}@{where}"


def exc_text(exc):
    import traceback

    return "".join(traceback.format_exception(type(exc), exc, exc.__traceback__))[-1500:]
