"""In-process file-operation shim for mysensors.persistence (fault / crash injection at Python level).

Installed through the names the module itself looks up at call time: a module-global `open`
and a forwarding proxy for `os`. Every open / write / flush / fsync / close / rename / replace /
remove is counted in issue order; the k-th may raise OSError or end the (forked) process with
os._exit, which flushes nothing - a faithful crash.
"""
import builtins
import errno
import os as _os

from . import core

core.use_repo()
import mysensors.persistence as mp  # noqa: E402


class FileProxy:
    def __init__(self, real, shim, path):
        self._real = real
        self._shim = shim
        self._path = path
        shim.fds[real.fileno()] = path

    def write(self, data):
        self._shim.op("write", self._path)
        if self._shim.short_now:
            # the file system takes only a part of the data (disk full, quota, file size limit): an unbuffered file
            # reports the short count and nothing else; a buffered one has the remainder refused when it retries
            self._shim.short_now = False
            import io

            n = len(data) // 2
            self._real.write(data[:n])
            self._shim.full_paths.add(self._path)
            if isinstance(self._real, io.RawIOBase):
                return n
            try:
                self._real.flush()
            except Exception:
                pass
            raise OSError(errno.ENOSPC, f"injected ENOSPC after a short write to {_os.path.basename(self._path)}")
        if self._path in self._shim.full_paths:
            raise OSError(errno.ENOSPC, f"injected ENOSPC writing to {_os.path.basename(self._path)}")
        try:
            return self._real.write(data)
        finally:
            self._shim.done()

    def flush(self):
        self._shim.op("flush", self._path)
        try:
            return self._real.flush()
        finally:
            self._shim.done()

    def close(self):
        if self._real.closed:
            return None
        self._shim.op("close", self._path)
        try:
            return self._real.close()
        finally:
            self._shim.done()

    def fileno(self):
        return self._real.fileno()

    def __enter__(self):
        return self

    def __exit__(self, *a):
        self.close()
        return False

    def __iter__(self):
        return iter(self._real)

    def __getattr__(self, name):
        return getattr(self._real, name)


class OsProxy:
    def __init__(self, shim):
        self._shim = shim

    def rename(self, a, b, *args, **kw):
        self._shim.op("rename", f"{_os.path.basename(str(a))}->{_os.path.basename(str(b))}")
        try:
            return _os.rename(a, b, *args, **kw)
        finally:
            self._shim.done()

    def replace(self, a, b, *args, **kw):
        self._shim.op("replace", f"{_os.path.basename(str(a))}->{_os.path.basename(str(b))}")
        try:
            return _os.replace(a, b, *args, **kw)
        finally:
            self._shim.done()

    def remove(self, a, *args, **kw):
        self._shim.op("remove", _os.path.basename(str(a)))
        try:
            return _os.remove(a, *args, **kw)
        finally:
            self._shim.done()

    def unlink(self, a, *args, **kw):
        self._shim.op("remove", _os.path.basename(str(a)))
        try:
            return _os.unlink(a, *args, **kw)
        finally:
            self._shim.done()

    # the same file operations through the descriptor-level API (os.open / os.fdopen / os.write / os.close / os.link)
    def open(self, path, flags, *args, **kw):
        if not self._shim.active or not flags & (_os.O_WRONLY | _os.O_RDWR | _os.O_CREAT | _os.O_APPEND | _os.O_TRUNC):
            return _os.open(path, flags, *args, **kw)
        self._shim.op("open", path)
        try:
            fd = _os.open(path, flags, *args, **kw)
        finally:
            self._shim.done()
        self._shim.fds[fd] = str(path)
        return fd

    def fdopen(self, fd, *args, **kw):
        real = _os.fdopen(fd, *args, **kw)
        if self._shim.active and fd in self._shim.fds:
            return FileProxy(real, self._shim, self._shim.fds[fd])
        return real

    def write(self, fd, data):
        if fd in self._shim.fds:
            self._shim.op("write", self._shim.fds[fd])
        try:
            return _os.write(fd, data)
        finally:
            self._shim.done()

    def close(self, fd):
        if fd in self._shim.fds:
            self._shim.op("close", self._shim.fds.pop(fd))
        try:
            return _os.close(fd)
        finally:
            self._shim.done()

    def link(self, a, b, *args, **kw):
        self._shim.op("link", f"{_os.path.basename(str(a))}->{_os.path.basename(str(b))}")
        try:
            return _os.link(a, b, *args, **kw)
        finally:
            self._shim.done()

    def symlink(self, a, b, *args, **kw):
        self._shim.op("symlink", f"{_os.path.basename(str(a))}->{_os.path.basename(str(b))}")
        try:
            return _os.symlink(a, b, *args, **kw)
        finally:
            self._shim.done()

    def truncate(self, path, length):
        self._shim.op("truncate", _os.path.basename(str(path)))
        try:
            return _os.truncate(path, length)
        finally:
            self._shim.done()

    def fsync(self, fd):
        self._shim.op("fsync", self._shim.fds.get(fd, f"fd{fd}"))
        try:
            return _os.fsync(fd)
        finally:
            self._shim.done()

    def fdatasync(self, fd):
        self._shim.op("fsync", self._shim.fds.get(fd, f"fd{fd}"))
        try:
            return _os.fdatasync(fd)
        finally:
            self._shim.done()

    def __getattr__(self, name):
        return getattr(_os, name)


class Shim:
    """mode: 'count' | 'fail' | 'short' (the at-th op, a write, is only partly accepted) | 'fail-all' | 'crash'; at: index of the op to hit; only write-mode opens are counted."""

    def __init__(self, mode="count", at=None, err=errno.EIO, logfd=None):
        self.mode = mode
        self.at = at
        self.err = err
        self.logfd = logfd
        self.n = 0
        self.ops = []
        self.fds = {}
        self.fired = False
        self.active = True
        self.short_now = False
        self.full_paths = set()
        self.on_op = None
        self.on_done = None

    def done(self):
        """The real operation announced by the last op() of this thread has returned (or raised)."""
        if self.on_done is not None and self.active:
            self.on_done()

    def op(self, name, path):
        if not self.active:
            return
        if self.on_op is not None:
            self.on_op(name, path)     # a scheduler may park the calling thread here
        idx = self.n
        self.n += 1
        base = _os.path.basename(str(path)) if name in ("open", "write", "flush", "close", "fsync") else path
        self.ops.append((name, base))
        if self.logfd is not None:
            _os.write(self.logfd, f"{idx} {name} {base}\n".encode())
        if self.mode == "short" and self.at is not None and idx == self.at and not self.fired and name == "write":
            self.fired = True
            self.short_now = True
            return
        if self.mode == "fail-all":
            # the disk is full / gone for the whole time the shim is installed: every file operation fails
            self.fired = True
            raise OSError(self.err, f"injected {errno.errorcode.get(self.err, self.err)} at op {idx} ({name} {base})")
        if self.at is not None and idx == self.at and not self.fired:
            self.fired = True
            if self.mode == "crash":
                _os._exit(77)
            if self.mode == "fail":
                raise OSError(self.err, f"injected {errno.errorcode.get(self.err, self.err)} at op {idx} ({name} {base})")

    def open(self, path, mode="r", *args, **kw):
        if not self.active or not any(ch in mode for ch in "wax+"):
            return builtins.open(path, mode, *args, **kw)
        self.op("open", path)
        try:
            real = builtins.open(path, mode, *args, **kw)
        finally:
            self.done()
        return FileProxy(real, self, str(path))

    def install(self):
        self._saved = (mp.__dict__.get("open", None), mp.os)
        mp.open = self.open
        mp.os = OsProxy(self)
        return self

    def uninstall(self):
        self.active = False
        if self._saved[0] is None:
            mp.__dict__.pop("open", None)
        else:
            mp.open = self._saved[0]
        mp.os = self._saved[1]

    def __enter__(self):
        return self.install()

    def __exit__(self, *a):
        self.uninstall()
        return False
