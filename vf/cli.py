"""./check <Cxx> [--tier quick|thorough] [--replay FILE] [--workers N]

Fans the property's jobs out to worker subprocesses (fresh interpreters that
import mysensors from $VERIF_REPO, default /repo), merges what their monitors
observed, classifies violations against known_findings.json, writes
evidence/<id>.json and exits 0 (held) / 1 (violation) / 2 (inconclusive).
"""
import argparse
import fnmatch
import importlib
import json
import os
import shutil
import subprocess
import sys
import tempfile
import time

from . import core


def load_findings():
    path = os.path.join(core.VERIF, "known_findings.json")
    if not os.path.exists(path):
        return []
    with open(path, encoding="utf-8") as fh:
        return json.load(fh).get("findings", [])


def _freeze(x):
    if isinstance(x, list):
        return tuple(_freeze(y) for y in x)
    return x


def merge(parts):
    agg = {
        "evals": 0,
        "distinct": set(),
        "counters": {},
        "sets": {},
        "violations": [],
        "samples": [],
        "notes": [],
    }
    for p in parts:
        agg["evals"] += p["evals"]
        agg["distinct"].update(p["distinct"])
        for k, v in p["counters"].items():
            agg["counters"][k] = agg["counters"].get(k, 0) + v
        for k, v in p["sets"].items():
            agg["sets"].setdefault(k, set()).update(_freeze(x) for x in v)
        for v in p["violations"]:
            for w in agg["violations"]:
                if w["sig"] == v["sig"]:
                    w["n"] += v["n"]
                    break
            else:
                agg["violations"].append(v)
        for s in p["samples"]:
            if len(agg["samples"]) < 6:
                agg["samples"].append(s)
        for n in p["notes"]:
            if n not in agg["notes"] and len(agg["notes"]) < 20:
                agg["notes"].append(n)
    return agg


def run_workers(prop, jobs, nworkers, timeout):
    """Run jobs in up to nworkers fresh interpreters. Returns (parts, problems)."""
    if not jobs:
        return [], ["no jobs"]
    nworkers = max(1, min(nworkers, len(jobs)))
    tmp = tempfile.mkdtemp(prefix=f"vf-{prop}-")
    procs = []
    problems = []
    parts = []
    try:
        for w in range(nworkers):
            sl = jobs[w::nworkers]
            jf = os.path.join(tmp, f"jobs{w}.json")
            of = os.path.join(tmp, f"out{w}.json")
            with open(jf, "w", encoding="utf-8") as fh:
                json.dump(sl, fh)
            env = dict(os.environ)
            env["PYTHONHASHSEED"] = "0"
            env["VERIF_REPO"] = core.REPO
            env["PYTHONPATH"] = core.REPO + os.pathsep + core.VERIF
            env["VF_TMP"] = tmp
            env["PYTHONDONTWRITEBYTECODE"] = "1"
            p = subprocess.Popen(
                [core.PY, "-m", "vf.worker", prop, jf, of],
                cwd=core.VERIF,
                env=env,
                stdout=subprocess.PIPE,
                stderr=subprocess.STDOUT,
                text=True,
                errors="replace",
            )
            procs.append((p, of, w))
        deadline = time.time() + timeout
        for p, of, w in procs:
            left = max(1.0, deadline - time.time())
            try:
                out, _ = p.communicate(timeout=left)
            except subprocess.TimeoutExpired:
                p.kill()
                out, _ = p.communicate()
                problems.append(f"worker {w} exceeded the {timeout}s watchdog")
                continue
            if p.returncode != 0 or not os.path.exists(of):
                problems.append(
                    f"worker {w} exited {p.returncode}: {out.strip()[-800:]}"
                )
                continue
            with open(of, encoding="utf-8") as fh:
                parts.extend(json.load(fh))
    finally:
        for p, _, _ in procs:
            if p.poll() is None:
                p.kill()
        shutil.rmtree(tmp, ignore_errors=True)
    return parts, problems


def classify(prop, violations, findings):
    known, new = [], []
    for v in violations:
        hit = None
        for f in findings:
            if f.get("property") != prop or f.get("status") != "known":
                continue
            if fnmatch.fnmatchcase(v["sig"], f["key"]):
                hit = f
                break
        if hit:
            known.append((v, hit))
        else:
            new.append(v)
    return known, new


def main(argv=None):
    ap = argparse.ArgumentParser()
    ap.add_argument("prop")
    ap.add_argument("--tier", default=os.environ.get("VERIF_TIER", "quick"))
    ap.add_argument("--replay")
    ap.add_argument("--workers", type=int, default=int(os.environ.get("VF_WORKERS", "16")))
    ap.add_argument("--no-evidence", action="store_true")
    args = ap.parse_args(argv)
    prop = args.prop.upper()
    tier = args.tier if args.tier in ("quick", "thorough") else "quick"
    seed = core.seed_env()
    mod = importlib.import_module(f"vf.props.{prop.lower()}")
    t0 = time.time()

    if args.replay:
        with open(args.replay, encoding="utf-8") as fh:
            rec = json.load(fh)
        jobs = [{"replay": rec["case"]}]
        parts, problems = run_workers(prop, jobs, 1, 600)
        agg = merge(parts)
        for p in problems:
            print("PROBLEM", p)
        for v in agg["violations"]:
            print(f"VIOLATION property={prop} replay={args.replay}  [{v['sig']}] {v['what']}")
        print("replay:", "violated" if agg["violations"] else "no violation reproduced")
        return 1 if agg["violations"] else (2 if problems else 0)

    jobs = mod.jobs(tier, seed)
    timeout = getattr(mod, "TIMEOUT", {"quick": 900, "thorough": 7200})[tier]
    parts, problems = run_workers(prop, jobs, args.workers, timeout)
    agg = merge(parts)
    fin = mod.finish(agg, tier)
    findings = load_findings()
    known, new = classify(prop, agg["violations"], findings)

    inconclusive = list(problems)
    for name, got, need in fin.get("floors", []):
        if got < need:
            inconclusive.append(f"monitor floor not reached: {name}={got} < {need}")

    replays = []
    if new:
        rdir = os.path.join(core.VERIF, "replays")
        os.makedirs(rdir, exist_ok=True)
        for v in new:
            path = os.path.join(rdir, f"{prop}-{core.h(v['sig'])}.json")
            with open(path, "w", encoding="utf-8") as fh:
                json.dump(
                    {"property": prop, "seed": seed, "tier": tier, "sig": v["sig"],
                     "what": v["what"], "count": v["n"], "case": v["case"]},
                    fh, indent=1, default=repr,
                )
            replays.append((v, path))

    wall = time.time() - t0
    coverage = {
        "evaluations": agg["evals"],
        "distinct_nontrivial": len(agg["distinct"]),
        "rule": fin["rule"],
        "samples": agg["samples"][:6] or ["(none)"],
        "counters": dict(sorted(agg["counters"].items())),
        "set_sizes": {k: len(v) for k, v in sorted(agg["sets"].items())},
        "jobs": len(jobs),
        "known_finding_hits": {v["sig"]: v["n"] for v, _ in known},
        "new_violation_signatures": [v["sig"] for v in new],
        "inconclusive": inconclusive,
        "notes": agg["notes"] + fin.get("notes", []),
    }
    if fin.get("exhaustive") is not None:
        coverage["exhaustive"] = bool(fin["exhaustive"])
    coverage.update(fin.get("extra", {}))
    evidence = {
        "property_id": prop,
        "tier": tier,
        "seed": seed,
        "level": mod.LEVEL,
        "coverage": coverage,
        "assumptions": fin.get("assumptions", []),
        "wall_s": round(wall, 2),
        "violations": len(new),
        "repo": core.REPO,
        "verdict": "violated" if new else ("inconclusive" if inconclusive else "held"),
    }
    if not args.no_evidence:
        edir = os.path.join(core.VERIF, "evidence")
        os.makedirs(edir, exist_ok=True)
        with open(os.path.join(edir, f"{prop}.json"), "w", encoding="utf-8") as fh:
            json.dump(evidence, fh, indent=1, default=repr)

    seen = set()
    for v, f in known:
        if f["key"] in seen:
            continue
        seen.add(f["key"])
        print(f"KNOWN-FINDING: property={prop} {f['what_fails']} (observed {v['n']}x, sig {v['sig']})")
    for v, path in replays:
        print(f"VIOLATION property={prop} replay={path}  [{v['sig']}] {v['what']} ({v['n']}x)")
    for r in inconclusive:
        print(f"INCONCLUSIVE property={prop} reason={r}")
    print(
        f"{prop} {tier} seed={seed}: {evidence['verdict']}; evaluations={agg['evals']} "
        f"distinct_nontrivial={len(agg['distinct'])} jobs={len(jobs)} wall={wall:.1f}s"
    )
    keys = fin.get("show", [])
    if keys:
        print("  observed:", ", ".join(f"{k}={agg['counters'].get(k, 0)}" for k in keys))
    if new:
        return 1
    if inconclusive:
        return 2
    return 0


if __name__ == "__main__":
    sys.exit(main())
