"""Reference model of the protocol meaning (written from the property statements).

Never imports mysensors. Expected output entries:
  ("exact", line)            the line itself
  ("set", n, c, vt, value)   a set command, ack free
  ("time", n, c)             time reply, integer judged separately
  ("idresp", n, c)           id response, id adopted from the observation
  ("fwcfg", n, t, v)         firmware config response for firmware (t, v)
  ("fwblk", n, t, v, i)      firmware block response
  ("fwblk?", n, t, v, i)     out-of-range block: silence or an echo with empty data
"""
import re
import struct

_VER = re.compile(r"^([0-9]+)\.([0-9]+)(\.([0-9]+))?$")
_HEX = re.compile(r"^[0-9a-fA-F]*$")


def crc16_modbus(data):
    crc = 0xFFFF
    for b in data:
        crc ^= b
        for _ in range(8):
            crc = (crc >> 1) ^ 0xA001 if crc & 1 else crc >> 1
    return crc


def pad_fw(image):
    """Image followed by 0xFF up to the next 128-byte page; an aligned image may get one more page."""
    pads = (-len(image)) % 128
    return image + b"\xff" * pads


def version_of(payload):
    """('ok', v) / ('fallback', '1.4') / ('undecided', None)."""
    if sum(1 for ch in payload if ch.isdigit()) > 4000:
        return ("undecided", None)       # more digits than int() converts
    m = _VER.match(payload)
    if m:
        return ("ok", payload) if (int(m.group(1)), int(m.group(2))) >= (1, 4) else ("fallback", "1.4")
    if not any(ch.isdigit() for ch in payload):
        return ("fallback", "1.4")
    return ("undecided", None)


def words_le(hexstr, n):
    if len(hexstr) != 4 * n or not _HEX.match(hexstr) or not hexstr.isascii():
        return None
    return struct.unpack(f"<{n}H", bytes.fromhex(hexstr))


class Model:
    def __init__(self, version):
        self.v = version
        self.two = version >= "2.0"
        self.nodes = {}
        self.sleeping = set()
        self.held = {}
        self.wake_children = {}
        self.desired = {}
        self.reboot = set()
        self.metric = True
        self.can_log = False
        self.fw = {}
        self.session = {}      # nid -> (set(phases), (t, v)); phases in requested/offered/fetching
        self.pv_undecided = {}  # nid -> payload whose version verdict the statement does not fix

    # -- helpers ------------------------------------------------------------
    def proj(self):
        return {
            n: {"id": n, "type": d["type"], "pv": d["pv"], "sn": d["sn"], "sv": d["sv"], "bat": d["bat"],
                "hb": d["hb"],
                "ch": {c: {"id": c, "type": x["type"], "desc": x["desc"], "vals": dict(x["vals"])}
                       for c, x in d["ch"].items()}}
            for n, d in self.nodes.items()
        }

    def new_node(self, n):
        return self.nodes.setdefault(n, dict(type=None, pv="1.4", sn=None, sv=None, bat=0, hb=0, ch={}))

    def route(self, dest, entry, stream=False):
        """Returns [entry] if it leaves now, [] if withheld for a sleeping node."""
        if dest in self.sleeping and not stream:
            self.held.setdefault(dest, []).append(entry)
            return []
        return [entry]

    def need(self, n, c=None):
        ok = n in self.nodes and (c is None or c in self.nodes[n]["ch"])
        out = []
        if not ok and self.two:
            out = self.route(n, ("exact", f"{n};255;3;0;19;\n"))
        return ok, out

    # -- inbound ------------------------------------------------------------
    def step(self, n, c, t, a, s, p):
        """An accepted inbound message. Returns dict(sends, cb, kind, burst)."""
        r = {"sends": [], "cb": (0, 0), "kind": "other", "burst": None}
        if t == 0:
            if c == 255:
                d = self.new_node(n)
                d["type"] = s
                kind, v = version_of(p)
                if kind == "undecided":
                    self.pv_undecided[n] = p
                else:
                    d["pv"] = v
                    self.pv_undecided.pop(n, None)
                self.reboot.discard(n)
                r.update(cb=(1, 1), kind="node-presentation")
                return r
            ok, out = self.need(n)
            if not ok:
                r.update(sends=out, kind="child-presentation-unknown-node")
                return r
            if c in self.nodes[n]["ch"]:
                r["kind"] = "child-represented"
                return r
            self.nodes[n]["ch"][c] = dict(type=s, desc=p, vals={})
            r.update(cb=(1, 1), kind="child-presentation")
            return r
        if t == 1:
            ok, out = self.need(n, c)
            if not ok:
                r.update(sends=out, kind="set-unknown")
                return r
            self.nodes[n]["ch"][c]["vals"][s] = p
            if c in self.wake_children.get(n, ()):
                self.desired.get(n, {}).get(c, {}).pop(s, None)
            r.update(cb=(1, 1), kind="set")
            if n in self.reboot:
                r["sends"] = self.route(n, ("exact", f"{n};255;3;0;13;\n"))
                r["kind"] = "set-reboot"
            return r
        if t == 2:
            ok, out = self.need(n, c)
            if not ok:
                r.update(sends=out, kind="req-unknown")
                return r
            val = self.desired.get(n, {}).get(c, {}).get(s)
            r["kind"] = "req-desired" if val is not None else "req"
            if val is None:
                val = self.nodes[n]["ch"][c]["vals"].get(s)
            if val is None:
                r["kind"] = "req-novalue"
                return r
            r["sends"] = self.route(n, ("set", n, c, s, val))
            return r
        if t == 3:
            return self.internal(r, n, c, a, s, p)
        if t == 4:
            return self.stream(r, n, s, p)
        return r

    def internal(self, r, n, c, a, s, p):
        if s == 0:
            ok, out = self.need(n)
            if not ok:
                r.update(sends=out, kind="battery-unknown")
                return r
            self.nodes[n]["bat"] = int(p)
            r.update(cb=(1, 1), kind="battery")
        elif s == 1:
            r.update(sends=self.route(n, ("time", n, c)), kind="time")
        elif s == 3:
            r.update(kind="id-request", cb=(0, 1), idreq=(n, c))
        elif s == 6:
            r.update(sends=self.route(n, ("exact", f"{n};{c};3;0;6;{'M' if self.metric else 'I'}\n")), kind="config")
        elif s == 9:
            self.can_log = True
            r["kind"] = "log"
        elif s in (11, 12):
            ok, out = self.need(n)
            if not ok:
                r.update(sends=out, kind="sketch-unknown")
                return r
            self.nodes[n]["sn" if s == 11 else "sv"] = p
            r.update(cb=(1, 1), kind="sketch-name" if s == 11 else "sketch-version")
        elif s == 14:
            r.update(cb=(1, 1), kind="gateway-ready")
            if self.two:
                r["sends"] = self.route(255, ("exact", "255;255;3;0;20;\n"))
        elif s == 21 and self.two:
            ok, out = self.need(n)
            r.update(sends=out, kind="discover-response")
        elif s == 22 and self.two:
            ok, out = self.need(n)
            if not ok:
                r.update(sends=out, kind="heartbeat-unknown")
                return r
            if self.v in ("2.0", "2.1"):
                r["burst"] = self.wake(n)
                r["kind"] = "wake"
            else:
                r["kind"] = "heartbeat"
            self.nodes[n]["hb"] = int(p)
            r["cb"] = (1, 1)
        elif s == 32 and self.v == "2.2":
            ok, out = self.need(n)
            if not ok:
                r.update(sends=out, kind="presleep-unknown")
                return r
            r["burst"] = self.wake(n)
            r["kind"] = "wake"
        return r

    def wake(self, n):
        d = self.nodes[n]
        wc = self.wake_children.setdefault(n, set())
        wc.update(d["ch"].keys())
        if d["ch"]:
            self.sleeping.add(n)
        held = self.held.pop(n, [])
        sets = []
        for c in sorted(wc):
            for vt, val in self.desired.get(n, {}).get(c, {}).items():
                if vt in d["ch"][c]["vals"]:
                    sets.append(("set", n, c, vt, val))
        return {"node": n, "held": held, "sets": sets}

    # -- OTA ------------------------------------------------------------------
    def stream(self, r, n, s, p):
        ok, out = self.need(n)
        if not ok:
            r.update(sends=out, kind="stream-unknown")
            return r
        if s not in (0, 2):
            r["kind"] = "stream-other"
            return r
        r["cb"] = (0, 1)
        sess = self.session.get(n)
        if s == 0:
            w = words_le(p, 5)
            if w is None:
                r["kind"] = "fw-config-malformed"
                return r
            r["kind"] = "fw-config"
            if sess is None:
                r["kind"] = "fw-config-nosession"
                return r
            phases, fid = sess
            if fid not in self.fw:
                return r
            if phases <= {"requested", "offered"}:
                r["sends"] = [("fwcfg", n, fid[0], fid[1])]
                self.session[n] = ({"offered"}, fid)
            elif phases == {"fetching"}:
                r["kind"] = "fw-config-withheld"
            else:  # undetermined between offered and fetching: either is allowed
                r["sends"] = [("fwcfg?", n, fid[0], fid[1])]
                r["kind"] = "fw-config-undetermined"
            return r
        w = words_le(p, 3)
        if w is None:
            r["kind"] = "fw-request-malformed"
            return r
        r["kind"] = "fw-request"
        if sess is None:
            r["kind"] = "fw-request-nosession"
            return r
        phases, fid = sess
        if phases == {"requested"}:
            r["kind"] = "fw-request-before-config"
            return r
        t, v, idx = w
        if (t, v) not in self.fw:
            # a request for firmware that does not exist: no reply; whether this counts as
            # "started fetching" is not fixed by the statement
            self.session[n] = (phases | {"fetching"}, fid)
            r["kind"] = "fw-request-unknown-fw"
            return r
        self.session[n] = ({"fetching"} if "requested" not in phases else phases | {"fetching"}, fid)
        if phases & {"requested"}:
            r["sends"] = [("fwblk?", n, t, v, idx)]
            return r
        blocks = len(self.fw[(t, v)]) // 16
        if idx >= blocks:
            r["sends"] = [("fwblk?", n, t, v, idx)]
            r["kind"] = "fw-request-out-of-range"
        else:
            r["sends"] = [("fwblk", n, t, v, idx)]
        return r

    def observe_fwcfg(self, n, replied):
        """Resolve an undetermined phase from what the gateway did."""
        sess = self.session.get(n)
        if sess and len(sess[0]) > 1:
            self.session[n] = ({"offered"} if replied else {"fetching"}, sess[1])

    def update_fw(self, nids, t, v, image):
        """Controller update call with integer type/version in 0..65535."""
        if image is not None:
            self.fw[(t, v)] = pad_fw(image)
        if (t, v) not in self.fw:
            return
        if not isinstance(nids, list):
            nids = [nids]
        for n in nids:
            if n in self.nodes:
                self.session[n] = ({"requested"}, (t, v))
                self.reboot.add(n)

    # -- controller set ---------------------------------------------------------
    def set_child_value(self, n, c, vt, value, raised):
        """Returns dict(sends, stored). vt already int-coerced (or None if not coercible)."""
        r = {"sends": [], "kind": "ctl-set"}
        ok, out = self.need(n, c)
        if not ok:
            r.update(sends=out, kind="ctl-set-unknown")
            return r
        if raised:
            r["kind"] = "ctl-set-refused"
            return r
        if n in self.sleeping:
            self.desired.setdefault(n, {}).setdefault(c, {})[vt] = value
            if c not in self.wake_children.get(n, ()):
                self.wake_children.setdefault(n, set()).add(c)
            r["kind"] = "ctl-set-desired"
            return r
        r["sends"] = [("set", n, c, vt, value)]
        return r
