"""Simulated connection lifetimes for the four serial/TCP gateways (C20) and the offline checker.

A script is a list of tokens:
  connect outcomes:  "refuse" | "timeout" | "ok"      (consumed by the library's next connect attempts)
  runtime faults:    "read-error" | "write-error" | "peer-eof" | "peer-reset" | "disconnect" | "traffic" | "silence"
followed implicitly by stop(). Event log entries: (virtual time, kind, ...).
"""
import asyncio
import socket as _socket

from . import core

core.use_repo()

import serial  # noqa: E402

CONNECT = ("refuse", "timeout", "ok")
# node 0 (the gateway device itself) presents a local sensor and announces smart sleep (2.2: pre-sleep notification)
NODE0_SLEEPS = b"0;255;0;0;18;2.2\n0;1;0;0;3;light\n0;255;3;0;32;500\n"


def _connect_failure(rng):
    """What a failing TCP dial raises: refused / unreachable (errno set), a resolver failure (socket.gaierror, negative
    errno), or asyncio's / create_connection's aggregate OSError without an errno."""
    return rng.choice([ConnectionRefusedError(111, "Connection refused"), ConnectionRefusedError(111, "Connection refused"),
                       OSError(113, "No route to host"), _socket.gaierror(-3, "Temporary failure in name resolution"),
                       _socket.gaierror(-2, "Name or service not known"), OSError("Multiple exceptions: [Errno 111] Connect call failed"),
                       TimeoutError(110, "Connection timed out")])
REQ = b"1;255;3;0;6;0\n"      # a config request: must be answered with one write


class Log:
    def __init__(self, clock):
        self.clock = clock
        self.ev = []

    def add(self, *a):
        self.ev.append((round(self.clock(), 4),) + a)


# ---------------------------------------------------------------------------
def run_threaded(kind, seed, script, rt=3.0, answer=0.1, hold=0.0):
    """kind: 'serial' | 'tcp'. Returns (events, meta)."""
    from . import simthreads as S
    import mysensors.gateway_serial as mgs
    import mysensors.gateway_tcp as mgt

    sim = S.new_sim(seed)
    S.install()
    vt = S.VTime()
    outcomes = []
    devs = []
    meta = {"kind": kind, "flavour": "threaded", "rt": rt, "answer": answer, "script": list(script), "seed": seed}

    def next_outcome():
        return outcomes.pop(0) if outcomes else "ok"

    class SerMod:
        SerialException = serial.SerialException
        PortNotOpenError = serial.PortNotOpenError
        threaded = serial.threaded
        tools = getattr(serial, "tools", None)

        def serial_for_url(self, port, baud=None, timeout=None, **kw):
            o = next_outcome()
            sim.ev("CONNECT-BEGIN", o)
            if o in ("refuse", "timeout"):
                sim.ev("CONNECT-END", "fail")
                raise serial.SerialException("could not open port")
            d = S.FakeSerial(len(devs) + 1, timeout)
            devs.append(d)
            sim.ev("CONNECT-END", "ok", d.cid)
            return d

        def __getattr__(self, n):
            return getattr(serial, n)

    class SockMod:
        timeout = _socket.timeout

        def create_connection(self, addr, timeout=None, **kw):
            o = next_outcome()
            sim.ev("CONNECT-BEGIN", o)
            if o == "refuse":
                sim.ev("CONNECT-END", "fail")
                raise _connect_failure(sim.rng)
            if o == "timeout":
                sim.block(until=sim.now + (timeout or 0))
                sim.ev("CONNECT-END", "fail")
                raise _socket.timeout("timed out")
            d = S.FakeSock(len(devs) + 1)
            d.answer = answer
            devs.append(d)
            sim.ev("CONNECT-END", "ok", d.cid)
            return d

        def __getattr__(self, n):
            return getattr(_socket, n)

    mgs.serial = SerMod()
    mgt.socket = SockMod()
    mgt.select = S.FakeSelect()
    try:
        if kind == "serial":
            gw = mgs.SerialGateway("/dev/fake", protocol_version="2.2", reconnect_timeout=rt, timeout=1.0)
        else:
            gw = mgt.TCPGateway("10.0.0.1", protocol_version="2.2", reconnect_timeout=rt)
        gw.on_conn_made = lambda *a: sim.ev("MADE", len(a) == 1 and a[0] is gw)
        gw.on_conn_lost = lambda *a: sim.ev("LOST", len(a) == 2 and a[0] is gw, type(a[1]).__name__ if len(a) > 1 and a[1] is not None else None)

        def live():
            for d in reversed(devs):
                closed = (not d.is_open) if kind == "serial" else d.closed
                if not closed:
                    return d
            return None

        def feed(d, data):
            if kind == "serial":
                d.buf += data
            else:
                d.rbuf += data

        def wait_made(limit):
            n0 = sum(1 for e in sim.log if e[1] == "MADE")
            t_end = sim.now + limit
            while sim.now < t_end:
                if sum(1 for e in sim.log if e[1] == "MADE") > n0 or (live() is not None and n0 > 0 and made_for(live())):
                    return True
                vt_sleep(0.25)
            return False

        def made_for(d):
            # a MADE logged after this device's CONNECT-END
            seen = False
            for e in sim.log:
                if e[1] == "CONNECT-END" and len(e) > 3 and e[3] == d.cid:
                    seen = True
                elif seen and e[1] == "MADE":
                    return True
            return False

        def vt_sleep(dt):
            sim.block(until=sim.now + dt)

        gw.start()
        sim.ev("STARTED")
        i = 0
        script = list(script)
        disconnected = False
        stop_now = False
        while i < len(script):
            while i < len(script) and script[i] in CONNECT:
                outcomes.append(script[i])
                i += 1
            if i >= len(script):
                break
            tok = script[i]
            i += 1
            if tok == "stop":
                vt_sleep(sim.rng.choice([0.0, 0.3, rt * 0.5, rt * 1.5]))
                stop_now = True
                break
            # wait for a live connection (bounded): a missing reconnect must not hang the script
            t_end = sim.now + 6 * rt + 5
            while sim.now < t_end and not (live() is not None and made_for(live())):
                vt_sleep(0.25)
            d = live()
            vt_sleep(sim.rng.choice([0.3, 0.7, rt * 0.5]))
            d = live()
            sim.ev("ACTION", tok, d.cid if d else None)
            if tok == "disconnect":
                gw.tasks.transport.disconnect()
                disconnected = True
                continue
            if d is None:
                continue
            if tok == "traffic":
                if sim.rng.random() < 0.35:
                    feed(d, NODE0_SLEEPS)      # the gateway device (node 0) has a local sensor and uses smart sleep
                feed(d, REQ)
                vt_sleep(0.5)
            elif tok == "read-error":
                if kind == "serial":
                    d.err = serial.SerialException("device reports readiness to read but returned no data")
                else:
                    d.rerr = OSError(5, "Input/output error")
            elif tok == "peer-reset":
                if kind == "serial":
                    d.err = serial.SerialException("unplugged")
                else:
                    d.rerr = ConnectionResetError(104, "Connection reset by peer")
            elif tok == "write-error":
                d.write_err = serial.SerialException("write failed") if kind == "serial" else BrokenPipeError(32, "Broken pipe")
                feed(d, REQ)
            elif tok == "peer-eof":
                if kind == "tcp":
                    d.eof = True
            elif tok == "silence":
                if kind == "tcp":
                    d.answer = None
                    d.pending.clear()
            elif tok in ("race-disconnect", "race-read-error"):
                # a request arrives; exactly when the poll thread is about to send the reply (it polls every 0.02 s
                # from t=0) the user disconnects / the link fails: the simulation interleaves the two at lock points
                feed(d, REQ)
                # wake up at exactly the instant the poll thread wakes up (its deadlines accumulate rounding errors,
                # so k * 0.02 would always be a hair later than the poll thread)
                for _ in range(sim.rng.choice([1, 1, 2])):
                    us = [t["until"] for t in sim.threads.values()
                          if t["name"].startswith("_poll_queue") and t["state"] == "wait" and t["until"] is not None]
                    sim.block(until=min(us) if us else sim.now + 0.02)
                # at this instant the poll thread wakes up as well: a controller command queued now is written
                # while the disconnect / the reader's loss handling is in progress
                gw.tasks.add_job(str, "1;1;1;0;2;1\n")
                if tok == "race-disconnect":
                    gw.tasks.transport.disconnect()
                    disconnected = True
                elif kind == "serial":
                    d.err = serial.SerialException("unplugged")
                else:
                    d.rerr = ConnectionResetError(104, "Connection reset by peer")
            vt_sleep(0.5)
            if tok in ("peer-eof", "silence") and kind == "tcp":
                # the library can only notice through a failing write or the watchdog: give it 3 x rt
                t_end = sim.now + 3 * rt + 2
                while sim.now < t_end and not d.closed:
                    vt_sleep(0.25)
        # let pending reconnects play out, then stop
        if not disconnected and not stop_now:
            t_end = sim.now + 7 * rt + 5
            while sim.now < t_end and not (live() is not None and made_for(live())):
                vt_sleep(0.25)
            d = live()
            if d is not None:
                sim.ev("ACTION", "traffic", d.cid)
                feed(d, REQ)
                vt_sleep(1.0)
        if not stop_now:
            vt_sleep(sim.rng.choice([0.1, rt * 0.4, rt * 1.3]) + hold)
        sim.ev("STOPPING")
        gw.stop()
        sim.ev("STOPPED")
        vt_sleep(6 * rt + 10)
        sim.ev("END")
        meta["alive_threads"] = [n for n in sim.alive_names() if n != "main"]
        meta["thread_errors"] = [(n, type(e).__name__, str(e)[:100]) for n, e in sim.thread_errors]
        meta["devices"] = len(devs)
        return list(sim.log), meta
    finally:
        sim.shutdown()
        S.uninstall()


# ---------------------------------------------------------------------------
class FakeT:
    """asyncio-style transport: writes on a closing transport are dropped silently; close -> connection_lost(None)."""

    def __init__(self, loop, proto, cid, log, answer):
        self.loop = loop
        self.p = proto
        self.cid = cid
        self.log = log
        self.closing = False
        self.answer = answer
        self.lost_called = False
        self.wedged = False       # the device has stopped reading: what is written stays in the transport's buffer
        self.unsent = 0

    def write(self, d):
        if self.closing:
            return
        if self.wedged:
            self.unsent += len(d)
            self.log.add("WRITE-BUFFERED", self.cid, d)
            return
        self.log.add("WRITE", self.cid, d)
        if self.answer is not None and b";255;3;0;2;" in d:
            self.loop.call_later(self.answer, self.feed, b"0;255;3;0;2;2.3.2\n")

    def feed(self, d):
        if not self.closing:
            if b";255;3;0;2;" in d:
                self.log.add("ANSWER", self.cid)
            self.p.data_received(d)

    def _lost(self, exc):
        if not self.lost_called:
            self.lost_called = True
            self.p.connection_lost(exc)

    def close(self):
        if self.closing:
            return
        self.closing = True
        if self.unsent:
            # asyncio's close() is graceful: with bytes still in the write buffer the transport keeps the socket and calls
            # connection_lost only once the buffer is flushed or a write fails - for a device that has stopped reading: never
            self.log.add("DEV-CLOSE-PENDING", self.cid)
            return
        self.log.add("DEV-CLOSE", self.cid)
        self.loop.call_soon(self._lost, None)

    def abort(self):
        if self.lost_called:
            return
        self.closing = True
        self.unsent = 0
        self.log.add("DEV-CLOSE", self.cid)
        self.loop.call_soon(self._lost, None)

    def is_closing(self):
        return self.closing

    def get_extra_info(self, name, default=None):
        return default

    # peer-side events
    def peer_eof(self):
        if self.closing:
            return
        keep = False
        if hasattr(self.p, "eof_received"):
            keep = self.p.eof_received()
        if not keep:
            self.close()

    def peer_error(self, exc):
        if self.closing:
            return
        self.closing = True
        self.log.add("DEV-CLOSE", self.cid)
        self.loop.call_soon(self._lost, exc)


def run_async(kind, seed, script, rt=3.0, answer=0.1, hold=0.0, stop_on_loss=False, made_raises=False):
    import random
    import mysensors.gateway_serial as mgs
    import mysensors.gateway_tcp as mgt
    from .fakes import Patched, VLoop

    rng = random.Random(seed)
    loop = VLoop()
    log = Log(loop.time)
    outcomes = []
    devs = []
    meta = {"kind": kind, "flavour": "asyncio", "rt": rt, "answer": answer, "script": list(script), "seed": seed}

    def next_outcome():
        return outcomes.pop(0) if outcomes else "ok"

    def new_transport(factory):
        p = factory()
        if p is None:
            # as in asyncio: the transport constructor does loop.call_soon(protocol.connection_made, ...) and fails
            log.add("CONNECT-END", "fail")
            raise AttributeError("'NoneType' object has no attribute 'connection_made'")
        t = FakeT(loop, p, len(devs) + 1, log, answer)
        devs.append(t)
        log.add("CONNECT-END", "ok", t.cid)
        loop.call_soon(p.connection_made, t)
        return t, p

    class SA:
        async def create_serial_connection(self, lp, factory, *a, **k):
            o = next_outcome()
            log.add("CONNECT-BEGIN", o)
            if o in ("refuse", "timeout"):
                log.add("CONNECT-END", "fail")
                raise serial.SerialException("could not open port")
            return new_transport(factory)

    async def create_connection(factory, host=None, port=None, **k):
        o = next_outcome()
        log.add("CONNECT-BEGIN", o)
        if o == "refuse":
            log.add("CONNECT-END", "fail")
            raise _connect_failure(rng)
        if o == "timeout":
            try:
                await asyncio.sleep(10 ** 6)
            finally:
                log.add("CONNECT-END", "fail")
        # a real TCP connect needs at least one trip through the selector before it completes
        await asyncio.sleep(0)
        await asyncio.sleep(0)
        return new_transport(factory)

    loop.create_connection = create_connection
    vtime = type("T", (), {"time": staticmethod(loop.time), "sleep": staticmethod(lambda dt: None)})()
    with Patched((mgs, "serial_asyncio", SA()), (mgt, "time", vtime)):
        if kind == "serial":
            gw = mgs.AsyncSerialGateway("/dev/fake", protocol_version="2.2", reconnect_timeout=rt)
        else:
            gw = mgt.AsyncTCPGateway("10.0.0.1", protocol_version="2.2", reconnect_timeout=rt)
        made_calls = [0]

        def on_made(*a):
            log.add("MADE", len(a) == 1 and a[0] is gw)
            made_calls[0] += 1
            if made_raises and made_calls[0] == 1:
                # the application's callback fails once (asyncio logs it and keeps the connection): supervision of the
                # link must not depend on it
                raise RuntimeError("connection-made callback raises (injected)")

        gw.on_conn_made = on_made
        stopped_by_loss = {"task": None}

        async def stop_at_once():
            # the application reacts to the loss by stopping the gateway, in the very loop iteration that reported it
            log.add("STOPPING")
            await gw.stop()
            for _ in range(4):
                await asyncio.sleep(0)
            log.add("STOPPED")

        def on_lost(*a):
            log.add("LOST", len(a) == 2 and a[0] is gw, type(a[1]).__name__ if len(a) > 1 and a[1] is not None else None)
            if stop_on_loss and len(a) > 1 and a[1] is not None and stopped_by_loss["task"] is None:
                stopped_by_loss["task"] = loop.create_task(stop_at_once())

        gw.on_conn_lost = on_lost
        errors = []
        def on_loop_error(lp, ctx):
            msg = repr(ctx.get("exception") or ctx.get("message"))[:160]
            if "(injected)" not in msg:
                errors.append(msg)

        loop.set_exception_handler(on_loop_error)

        def live():
            for d in reversed(devs):
                if not d.closing:
                    return d
            return None

        def made_for(d):
            seen = False
            for e in log.ev:
                if e[1] == "CONNECT-END" and len(e) > 3 and e[3] == d.cid:
                    seen = True
                elif seen and e[1] == "MADE":
                    return True
            return False

        async def main():
            start_task = loop.create_task(gw.start())
            log.add("STARTED")
            i = 0
            sc = list(script)
            disconnected = False
            stop_now = False
            while i < len(sc):
                if stopped_by_loss["task"] is not None:
                    break
                while i < len(sc) and sc[i] in CONNECT:
                    outcomes.append(sc[i])
                    i += 1
                if i >= len(sc):
                    break
                tok = sc[i]
                i += 1
                if tok == "stop":
                    await asyncio.sleep(rng.choice([0.0, 0.3, rt * 0.5, rt * 1.5]))
                    stop_now = True
                    break
                t_end = loop.time() + 6 * rt + 5
                while loop.time() < t_end and not (live() is not None and made_for(live())):
                    await asyncio.sleep(0.25)
                await asyncio.sleep(rng.choice([0.3, 0.7, rt * 0.5]))
                d = live()
                log.add("ACTION", tok, d.cid if d else None)
                if tok == "disconnect":
                    gw.tasks.transport.disconnect()
                    disconnected = True
                    continue
                if d is None:
                    continue
                if tok == "traffic":
                    if rng.random() < 0.35:
                        d.feed(NODE0_SLEEPS)
                    d.feed(REQ)
                elif tok in ("read-error", "write-error"):
                    d.peer_error(OSError(5, "Input/output error"))
                elif tok == "peer-reset":
                    d.peer_error(ConnectionResetError(104, "Connection reset by peer"))
                elif tok == "peer-eof":
                    if kind == "tcp":
                        d.peer_eof()
                elif tok == "silence":
                    d.answer = None
                elif tok == "wedge":
                    # the device stops reading AND answering (wedged firmware, closed TCP window): the probes and replies the
                    # gateway writes from now on stay in the transport's write buffer
                    d.answer = None
                    d.wedged = True
                    d.feed(REQ)
                await asyncio.sleep(0.5)
                if tok in ("silence", "wedge") and kind == "tcp":
                    t_end = loop.time() + 3 * rt + 2
                    while loop.time() < t_end and not d.closing:
                        await asyncio.sleep(0.25)
            if not disconnected and not stop_now:
                t_end = loop.time() + 7 * rt + 5
                while loop.time() < t_end and not (live() is not None and made_for(live())):
                    await asyncio.sleep(0.25)
                d = live()
                if d is not None:
                    log.add("ACTION", "traffic", d.cid)
                    d.feed(REQ)
                    await asyncio.sleep(1.0)
            if stopped_by_loss["task"] is not None:
                await stopped_by_loss["task"]
                if not start_task.done():
                    start_task.cancel()
                await asyncio.sleep(6 * rt + 10)
                log.add("END")
                return
            if not stop_now:
                await asyncio.sleep(rng.choice([0.1, rt * 0.4, rt * 1.3]) + hold)
            log.add("STOPPING")
            await gw.stop()
            # asyncio delivers the loss of the connection closed by stop() on the next loop iterations:
            # "after stop()" is judged once stop() has returned and the ready handles have run
            for _ in range(4):
                await asyncio.sleep(0)
            log.add("STOPPED")
            if not start_task.done():
                start_task.cancel()
            else:
                if not start_task.cancelled() and start_task.exception() is not None:
                    meta["start_raised"] = repr(start_task.exception())[:120]
            await asyncio.sleep(6 * rt + 10)
            log.add("END")

        try:
            loop.run_until_complete(main())
        finally:
            pending = [t for t in asyncio.all_tasks(loop) if not t.done()]
            meta["pending_tasks"] = [getattr(t.get_coro(), "__name__", "?") for t in pending]
            for t in pending:
                t.cancel()
            try:
                loop.run_until_complete(asyncio.gather(*pending, return_exceptions=True))
            except Exception:
                pass
            loop.close()
        meta["loop_errors"] = errors
        meta["devices"] = len(devs)
    return list(log.ev), meta


# ---------------------------------------------------------------------------
def check(events, meta):
    """Offline checker over one lifetime. Returns list of (sig, what)."""
    V = []
    rt, kind, fl = meta["rt"], meta["kind"], meta["flavour"]
    eps = max(0.11, 0.05 * rt)
    established = [e for e in events if e[1] == "CONNECT-END" and e[2] == "ok"]
    made = [e for e in events if e[1] == "MADE"]
    lost = [e for e in events if e[1] == "LOST"]
    idx_stop = next((i for i, e in enumerate(events) if e[1] == "STOPPED"), None)
    t_stop = events[idx_stop][0] if idx_stop is not None else None
    # (0) callback shape
    for e in made:
        if e[2] is not True:
            V.append(("made-callback-shape", f"on_conn_made not called as (gateway): {e}"))
    for e in lost:
        if e[2] is not True:
            V.append(("lost-callback-shape", f"on_conn_lost not called as (gateway, error): {e}"))
    # (1) made once per established connection
    if len(made) != len(established):
        V.append((f"made-count:{'more' if len(made) > len(established) else 'fewer'}",
                  f"{len(established)} connections established, on_conn_made called {len(made)} times"))
    # (2) lost once per lost connection: every connection that ended (closed by the library, the peer or an error)
    ended = {e[2] for e in events if e[1] == "DEV-CLOSE"}
    if idx_stop is not None and len(lost) != len(ended):
        V.append((f"lost-count:{'more' if len(lost) > len(ended) else 'fewer'}",
                  f"{len(established)} connections established, {len(ended)} of them over after stop(), on_conn_lost called {len(lost)} times"))
    meta["open_after_stop"] = len(established) - len(ended)
    # (3) a reconnect attempt follows every loss the user did not request
    user_off = next((i for i, e in enumerate(events) if e[1] == "ACTION" and e[2] == "disconnect"), None)
    idx_stopping = next((i for i, e in enumerate(events) if e[1] == "STOPPING"), len(events))
    horizon = min(x for x in (user_off, idx_stopping) if x is not None)
    for i, e in enumerate(events[:horizon]):
        if e[1] != "ACTION" or e[3] is None:
            continue
        tok, t0 = e[2], e[0]
        if tok in ("read-error", "peer-reset", "write-error") or (tok == "peer-eof" and kind == "tcp") or (tok in ("silence", "wedge") and kind == "tcp"):
            if tok in ("read-error", "peer-reset", "write-error"):
                limit = 1.0 + eps
            elif tok == "peer-eof":
                limit = (3 * rt + 1.0) if fl == "threaded" else 1.0 + eps
            else:
                limit = 3 * rt + 1.0 + 2 * eps
            t_h = events[horizon][0] if horizon < len(events) else events[-1][0]
            if t0 + limit > t_h:
                continue   # the lifetime ended (stop / user disconnect) before the deadline
            nxt = [x for x in events[i + 1:horizon] if x[1] == "CONNECT-BEGIN" and x[0] <= t0 + limit]
            if not nxt:
                V.append((f"no-reconnect-after:{tok}:{kind}:{fl}", f"{tok} at t={t0}: no connect attempt within {limit:.1f}s (rt={rt})"))
            lst = [x for x in events[i + 1:horizon] if x[1] == "LOST" and x[0] <= t0 + limit]
            if not lst:
                V.append((f"no-lost-callback-after:{tok}:{kind}:{fl}", f"{tok} at t={t0}: on_conn_lost not called within {limit:.1f}s (rt={rt})"))
            if tok == "silence" and lst and lst[0][0] < t0 + 2 * rt - (rt + 0.2) - eps:
                pass
    # retries spaced by reconnect_timeout until one succeeds
    for i, e in enumerate(events[:horizon]):
        if e[1] == "CONNECT-END" and e[2] == "fail":
            t_fail = e[0]
            nxt = next((x for x in events[i + 1:] if x[1] == "CONNECT-BEGIN"), None)
            t_h = events[horizon][0] if horizon < len(events) else events[-1][0]
            if nxt is None or nxt[0] > t_h:
                if t_fail + rt + eps < t_h:
                    V.append((f"retry-missing:{kind}:{fl}", f"connect failed at t={t_fail}, no further attempt by t={t_h} (rt={rt})"))
            elif abs((nxt[0] - t_fail) - rt) > eps:
                V.append((f"retry-spacing:{kind}:{fl}", f"connect failed at t={t_fail}, next attempt at t={nxt[0]} (rt={rt})"))
    # (4) nothing after stop() returned
    if idx_stop is not None:
        for e in events[idx_stop + 1:]:
            if e[1] in ("WRITE", "MADE", "LOST", "CONNECT-BEGIN"):
                V.append((f"activity-after-stop:{e[1]}:{kind}:{fl}", f"stop() returned at t={t_stop}, then {e}"))
                break
    else:
        V.append(("stop-did-not-return", "stop() never returned"))
    # (4b) a healthy link is never dropped: every close before stop / user disconnect is explained by a scripted fault
    FAULTS = ("read-error", "write-error", "peer-eof", "peer-reset", "silence", "wedge", "race-read-error", "race-disconnect")
    for i, e in enumerate(events[:horizon] if meta.get("answer") is not None else []):
        if e[1] == "DEV-CLOSE":
            cid = e[2]
            why = [x for x in events[:i] if x[1] == "ACTION" and x[2] in FAULTS and x[3] == cid]
            if not why:
                V.append((f"healthy-link-dropped:{kind}:{fl}", f"connection {cid} was closed at t={e[0]} although no fault was injected on it and probes were answered (rt={rt})"))
    # (5) every traffic request on a live, made connection is answered
    for i, e in enumerate(events):
        if e[1] == "ACTION" and e[2] == "traffic" and e[3] is not None:
            w = [x for x in events[i + 1:] if x[1] == "WRITE" and b";3;0;6;" in x[3] and x[0] <= e[0] + 1.0]
            if not w:
                V.append((f"request-unanswered:{kind}:{fl}", f"config request at t={e[0]} on connection {e[3]} not answered"))
    for n, tname, msg in meta.get("thread_errors", []):
        if str(n).startswith("_poll_queue"):
            V.append((f"thread-died:{tname}:{kind}:{fl}", f"the poll thread died: {tname}: {msg}"))
        else:
            # a reader / connect thread ending with an exception is judged by its consequences (callback counts,
            # reconnects, unanswered requests), not by itself: no statement is about those threads
            meta["other_thread_errors"] = meta.get("other_thread_errors", 0) + 1
    for msg in meta.get("loop_errors", []):
        V.append((f"loop-error:{kind}:{fl}", f"unhandled error in the event loop: {msg}"))
    return V


def check_watchdog(events, meta, pattern):
    """TCP watchdog: an answering link is never dropped; a silent one is dropped and re-dialled within about 2 x rt."""
    V = []
    rt, fl = meta["rt"], meta["flavour"]
    eps = max(0.25, 0.05 * rt)
    idx_stopping = next((i for i, e in enumerate(events) if e[1] == "STOPPING"), len(events))
    t_stopping = events[idx_stopping][0] if idx_stopping < len(events) else events[-1][0]
    closes = [e for e in events[:idx_stopping] if e[1] == "DEV-CLOSE"]
    if pattern == "answering":
        if closes:
            V.append((f"answering-link-dropped:{fl}", f"a link answering every probe with latency {meta['answer']} (rt={rt}) was closed at t={closes[0][0]}"))
        return V
    # silent: first connection
    conn = next((e for e in events if e[1] == "CONNECT-END" and e[2] == "ok"), None)
    if conn is None:
        return V
    cid = conn[3]
    answers = [e[0] for e in events if e[1] == "ANSWER" and e[2] == cid]
    t_ref = max([conn[0]] + answers)
    drop = next((e for e in events if e[1] == "DEV-CLOSE" and e[2] == cid), None)
    if t_stopping < t_ref + 3 * rt + 2 * eps + 0.2:
        return V      # the lifetime ended before the deadline: nothing to judge
    # "within about twice that timeout": the threaded gateway looks at its deadline every 0.02 s, the asyncio gateway
    # every rt + 0.1 s - its drop can come up to one such period after 2 x rt
    latest = t_ref + (2 * rt + eps + 0.5 if fl == "threaded" else 3 * rt + eps + 0.2)
    if drop is None or drop[0] > latest:
        V.append((f"silent-link-not-dropped:{fl}", f"link silent since t={t_ref} (rt={rt}) dropped at {drop[0] if drop else None}, later than t={latest:.2f}"))
    elif drop[0] < t_ref + 2 * rt - eps:
        V.append((f"silent-link-dropped-early:{fl}", f"link silent since t={t_ref} dropped at t={drop[0]}, earlier than 2 x rt={2 * rt}"))
    else:
        redial = next((e for e in events if e[1] == "CONNECT-BEGIN" and e[0] >= drop[0] - 1e-9 and events.index(e) > events.index(conn)), None)
        if redial is None or redial[0] > drop[0] + 1.0:
            V.append((f"silent-link-not-redialled:{fl}", f"silent link dropped at t={drop[0]}, re-dial at {redial[0] if redial else None}"))
    return V


# ---------------------------------------------------------------------------
def run_threaded_stream(kind, seed, stream, cuts, version="2.2"):
    """Feed a byte stream in chunks to the REAL threaded serial / TCP gateway (reader thread, poll thread,
    SyncTransport.send) under the thread simulation. Returns (projection, written lines, thread errors)."""
    from . import simthreads as S
    from .drive import projection
    import mysensors.gateway_serial as mgs
    import mysensors.gateway_tcp as mgt

    sim = S.new_sim(seed)
    S.install()
    devs = []

    class SerMod:
        SerialException = serial.SerialException
        PortNotOpenError = serial.PortNotOpenError
        threaded = serial.threaded
        tools = getattr(serial, "tools", None)

        def serial_for_url(self, port, baud=None, timeout=None, **kw):
            d = S.FakeSerial(len(devs) + 1, timeout)
            devs.append(d)
            return d

        def __getattr__(self, n):
            return getattr(serial, n)

    class SockMod:
        timeout = _socket.timeout

        def create_connection(self, addr, timeout=None, **kw):
            d = S.FakeSock(len(devs) + 1)
            d.answer = 0.05
            devs.append(d)
            return d

        def __getattr__(self, n):
            return getattr(_socket, n)

    mgs.serial = SerMod()
    mgt.socket = SockMod()
    mgt.select = S.FakeSelect()
    try:
        if kind == "serial":
            gw = mgs.SerialGateway("/dev/fake", protocol_version=version, reconnect_timeout=1e6, timeout=1.0)
        else:
            # no version probes during the stream: the fake device would splice its answer into a half-delivered line,
            # which no device does (a byte-wise delivery of a long stream takes more than 50 virtual seconds)
            gw = mgt.TCPGateway("10.0.0.1", protocol_version=version, reconnect_timeout=1e6)
        made = []
        gw.on_conn_made = lambda *a: made.append(1)
        gw.start()
        t_end = sim.now + 5
        while sim.now < t_end and not made:
            sim.block(until=sim.now + 0.05)
        if not devs or not made:
            return None, None, ["no connection"]
        d = devs[-1]
        prev = 0
        for c in cuts:
            if c <= prev:
                continue
            if kind == "serial":
                d.buf += stream[prev:c]
            else:
                d.rbuf += stream[prev:c]
            prev = c
            sim.block(until=sim.now + sim.rng.choice([0.0, 0.001, 0.03, 0.2]))
        sim.block(until=sim.now + 3.0)
        t_end = sim.now + 20
        while sim.now < t_end and (gw.tasks.queue or (d.buf if kind == "serial" else d.rbuf)):
            sim.block(until=sim.now + 0.1)
        state = projection(gw.sensors)
        writes = [e[3].decode("utf-8", "replace") for e in sim.log if e[1] == "WRITE" and b";255;3;0;2;" not in e[3]]
        gw.stop()
        sim.block(until=sim.now + 3.0)
        errs = [(n, type(e).__name__, str(e)[:100]) for n, e in sim.thread_errors]
        return state, writes, errs
    finally:
        sim.shutdown()
        S.uninstall()
