"""Lock-step engine: real gateway + reference model + offline oracles over the event log.

run_history(cfg, steps) -> Outcome with violations tagged by property id.
Steps (JSON-able):
  ["in", line]                      inbound line from the network
  ["set", n, c, vt, value, {kw}]    controller set_child_value
  ["fw", nids, type, ver, hex|None] controller firmware update (binary given directly)
  ["metric", bool]                  gateway.metric toggle
  ["cbraise", bool]                 event callback raises from now on / stops raising
  ["lag", k]                        (sync) the pump falls behind: no draining for the next k steps
  ["drain"]                         (sync) let the pump catch up now

The model advances when Gateway.logic actually runs (hooks around the public
method), so histories with a lagging pump are judged by the same oracles.
"""
import time

from . import core, model as M, spec
from .drive import Engine, PumpDied, lib_verdict, projection, snapshot


class HarnessError(Exception):
    pass


class Outcome:
    def __init__(self):
        self.violations = []   # (prop, sig, what, step)
        self.kinds = []        # model kind per processed event
        self.kind_states = []  # (kind, abstract state class before, command, sub-type)
        self.crashed = None
        self.bursts = []       # (held kinds, number of desired sets, released count)
        self.stats = {}
        self.eng = None
        self.mdl = None

    def v(self, prop, sig, what, step=None):
        self.violations.append((prop, sig, what, step))

    def count(self, k, n=1):
        self.stats[k] = self.stats.get(k, 0) + n


def to_ihex(data):
    """Plain Intel-HEX: 16-byte data records from address 0 and an EOF record."""
    out = []
    for off in range(0, len(data), 16):
        chunk = data[off:off + 16]
        rec = bytes([len(chunk), (off >> 8) & 0xFF, off & 0xFF, 0]) + chunk
        out.append(":" + rec.hex().upper() + f"{(-sum(rec)) & 0xFF:02X}")
    out.append(":00000001FF")
    return "\n".join(out) + "\n"


def wellformed(data):
    """The line format, independent of the library's decoder: exactly five integer fields and a payload separated by ';'
    (trailing whitespace is not part of the line). Returns the six fields or None."""
    if not isinstance(data, str):
        return None
    parts = data.rstrip().split(";")
    if len(parts) != 6:
        return None
    try:
        ints = [int(x) for x in parts[:5]]
    except ValueError:
        return None
    return (*ints, parts[5])


def parse_canon(line):
    """Independent canonical-form parser: five plain integers, payload, exactly one newline."""
    if not isinstance(line, str) or not line.endswith("\n") or line.count("\n") != 1:
        return None
    parts = line[:-1].split(";")
    if len(parts) != 6:
        return None
    try:
        ints = [int(x) for x in parts[:5]]
    except ValueError:
        return None
    if any(str(i) != x for i, x in zip(ints, parts[:5])):
        return None
    return ints + [parts[5]]


def local_seconds(now=None):
    """Controller's local time in seconds: T + utcoffset(T)."""
    now = time.time() if now is None else now
    lt = time.localtime(now)
    return int(now) + (lt.tm_gmtoff or 0)


def carriable(p):
    return ";" not in p and "\n" not in p and "\r" not in p and p == p.rstrip()


def match(entry, line, mdl, t_call):
    f = parse_canon(line)
    if f is None:
        return False
    n, c, t, a, s, p = f
    k = entry[0]
    if k == "exact":
        return line == entry[1]
    if k == "set":
        return (n, c, t, s, p) == (entry[1], entry[2], 1, entry[3], entry[4])
    if k == "time":
        if (n, c, t, a, s) != (entry[1], entry[2], 3, 0, 1):
            return False
        try:
            val = int(p)
        except ValueError:
            return False
        return abs(val - local_seconds(t_call)) <= 3
    if k == "idresp":
        return (n, c, t, a, s, p) == (entry[1], entry[2], 3, 0, 4, str(entry[3]))
    if k in ("fwcfg", "fwcfg?"):
        if (n, c, t, s) != (entry[1], 255, 4, 1):      # the ack flag of firmware responses is not prescribed
            return False
        w = M.words_le(p, 4)
        return w is not None and (w[0], w[1]) == (entry[2], entry[3])
    if k in ("fwblk", "fwblk?"):
        if (n, c, t, s) != (entry[1], 255, 4, 3):
            return False
        head = M.words_le(p[:12], 3)
        if head is None or tuple(head) != (entry[2], entry[3], entry[4]):
            return False
        data = p[12:]
        if k == "fwblk":
            fw = mdl.fw.get((entry[2], entry[3]), b"")
            want = fw[16 * entry[4]:16 * entry[4] + 16]
            return data.lower() == want.hex()
        return data == "" or data.lower() == "ff" * 16
    raise AssertionError(k)


def optional(entry):
    return entry[0] in ("fwblk?", "fwcfg?")


def match_multiset(expected, got, mdl, t_call):
    got = list(got)
    missing = []
    for e in expected:
        for i, line in enumerate(got):
            if match(e, line, mdl, t_call):
                del got[i]
                break
        else:
            if not optional(e):
                missing.append(e)
    return missing, got


def entry_kind(e):
    if e[0] == "exact":
        f = parse_canon(e[1])
        return "x" + ";".join(str(x) for x in f[2:5]) if f else "x?"
    return e[0]


def state_class(mdl):
    return (bool(mdl.nodes), bool(mdl.sleeping), bool(mdl.session), any(mdl.held.values()),
            any(any(c.values()) for c in mdl.desired.values()), bool(mdl.reboot))


class LockStep:
    def __init__(self, cfg, props):
        self.cfg = cfg
        self.props = props
        self.version = cfg["version"]
        self.out = Outcome()
        # the gateway may be configured with another spelling of the same protocol class ("2.1.1" for "2.1"): the model,
        # the spec and the line oracle keep the class
        self.eng = Engine(cfg.get("flavour", "sync"), cfg.get("gw_version", self.version), mqtt=cfg.get("mqtt", False))
        self.mdl = M.Model(self.version)
        self.pending = {}       # origin step -> dict(exp, kind, concerned, t_call, burst, sleeping)
        self.eng.pre_logic = self.pre_logic
        self.eng.post_logic = self.post_logic
        self.out.eng = self.eng
        self.out.mdl = self.mdl

    # ---- hooks around Gateway.logic ---------------------------------------
    def pre_logic(self, origin, data):
        eng = self.eng
        return {
            "before": snapshot(eng.gw),
            "qlen": len(eng.gw.tasks.queue),
            "ncb": len(eng.cbs),
            "nsub": len(eng.subs),
            "sleeping": frozenset(self.mdl.sleeping),
            "t": time.time(),
            "sc": state_class(self.mdl),
            "ncbset": len(eng.cb_set_calls),
            "ncbfw": len(eng.cb_fw_calls),
        }

    def post_logic(self, tok, origin, data, reply, exc):
        if exc is not None or tok is None:
            return
        out, eng, mdl, gw = self.out, self.eng, self.mdl, self.eng.gw
        version = self.version
        msg, verdict = lib_verdict(data, version)
        cbs = eng.cbs[tok["ncb"]:]
        if verdict != "ok":
            out.kinds.append("rejected-" + verdict)
            out.kind_states.append(("rejected-" + verdict, tok["sc"]))
            out.count("rejected_lines")
            after = snapshot(gw)
            if after != tok["before"]:
                parts = [nm for nm, a, b in zip(("tree", "transient", "ota", "can_log"), tok["before"], after) if a != b]
                out.v("C01", f"rejected-line-effect:state:{','.join(parts)}", f"rejected line {data!r} changed {parts}", origin)
            if reply is not None or len(gw.tasks.queue) != tok["qlen"]:
                out.v("C01", "rejected-line-effect:reply", f"rejected line {data!r} produced a reply or a job", origin)
            if cbs:
                out.v("C01", "rejected-line-effect:callback", f"rejected line {data!r} fired the event callback", origin)
            if len(eng.subs) != tok["nsub"]:
                out.v("C01", "rejected-line-effect:subscribe", f"rejected line {data!r} caused a subscription", origin)
            self.pending[origin] = dict(exp=[], kind="rejected", concerned=set(), t=tok["t"], burst=None, sleeping=tok["sleeping"])
            return
        n, c, t, a, s, p = msg.node_id, msg.child_id, msg.type, msg.ack, msg.sub_type, msg.payload
        wf = wellformed(data)
        if wf is None or wf != (n, c, t, a, s, p):
            # the library's own decoder calls this a frame, the line format (five integers and a payload, separated by
            # ';') does not: whatever the decoder made of it, the line must have no effect
            out.kinds.append("rejected-malformed-but-decoded")
            out.count("rejected_lines")
            after = snapshot(gw)
            if after != tok["before"] or reply is not None or len(gw.tasks.queue) != tok["qlen"] or cbs or len(eng.subs) != tok["nsub"]:
                out.v("C01", "malformed-line-decoded-and-effect", f"line {data!r} is not a frame (decoded as {(n, c, t, a, s, p)!r}) but it was accepted and had an effect", origin)
            self.pending[origin] = dict(exp=[], kind="rejected", concerned=set(), t=tok["t"], burst=None, sleeping=tok["sleeping"])
            return
        if spec.header_ok(version, n, c, t, a, s) is False:
            # the library accepted a line whose HEADER the serial API rules out for this version (id ranges, child-255
            # rules, ack, defined command / sub-type - the clauses C03 enumerates): it must still have no effect
            after = snapshot(gw)
            if after != tok["before"] or reply is not None or len(gw.tasks.queue) != tok["qlen"] or cbs:
                out.v("C01", f"invalid-header-line-effect:t={t}", f"line {data!r} is not valid for {version} (header) but was accepted and had an effect", origin)
        r = mdl.step(n, c, t, a, s, p)
        for (n2, c2, vt2, val2, raised2) in eng.cb_set_calls[tok.get("ncbset", 0):]:
            # the callback of this very message called set_child_value: a controller call made after the report was stored
            r2 = mdl.set_child_value(n2, c2, vt2, str(val2), raised2)
            r = dict(r, sends=list(r["sends"]) + list(r2["sends"]))
            out.count("controller_sets_from_inside_the_callback")
            if r2["kind"] == "ctl-set-desired":
                out.count("desired_stored")
        for (n2, ft2, fv2, img2, raised2) in eng.cb_fw_calls[tok.get("ncbfw", 0):]:
            # the callback of this very message (a node presentation) scheduled a firmware update for the node: an update
            # call made after the presentation was handled
            if not raised2 and isinstance(ft2, int) and isinstance(fv2, int) and 0 <= ft2 <= 65535 and 0 <= fv2 <= 65535 \
                    and (img2 is None or 0 < len(img2) <= 16 * 65535 - 128):
                mdl.update_fw([n2], ft2, fv2, img2)
            out.count("firmware_updates_from_inside_the_callback")
        out.kinds.append(r["kind"])
        out.kind_states.append((r["kind"], tok["sc"], t, s))
        out.count("accepted_lines")
        if r["kind"] == "id-request":
            new = set(gw.sensors) - set(mdl.nodes)
            if len(new) == 1:
                nid = next(iter(new))
                # adopt the gateway's choice only if it is an id at all (C06 judges which one);
                # anything else stays a difference between the tree and the model
                if isinstance(nid, int) and not isinstance(nid, bool) and 1 <= nid <= 254:
                    mdl.new_node(nid)
                    r["sends"] = mdl.route(n, ("idresp", n, c, nid))
        if r["kind"] == "fw-config-undetermined":
            mdl.observe_fwcfg(n, reply is not None)
        lo, hi = r["cb"]
        if "C04" in self.props:
            if not lo <= len(cbs) <= hi:
                out.v("C04", f"callback-count:{r['kind']}:{len(cbs)}", f"{data!r} ({r['kind']}): {len(cbs)} callbacks, expected {lo}..{hi}", origin)
            for (_s, fields, inside) in cbs:
                if tuple(fields) != (n, c, t, a, s, p):
                    out.v("C04", f"callback-fields:{r['kind']}", f"callback got {fields!r}, message is {(n, c, t, a, s, p)!r}", origin)
                want = mdl.proj()
                for nn, pp in list(mdl.pv_undecided.items()):
                    if nn in inside and inside[nn]["pv"] in (pp, "1.4"):
                        want[nn]["pv"] = inside[nn]["pv"]
                if inside != want:
                    out.v("C04", f"callback-before-state:{r['kind']}", f"{data!r}: the state seen inside the callback does not yet reflect the message", origin)
                out.count("callbacks_judged")
            self.compare_state(origin)
        self.pending[origin] = dict(exp=r["sends"], kind=r["kind"], concerned={n}, t=tok["t"], burst=r["burst"], sleeping=tok["sleeping"])

    def compare_state(self, where):
        out, mdl = self.out, self.mdl
        real = projection(self.eng.gw.sensors)
        for n, p in list(mdl.pv_undecided.items()):
            if n in real and real[n]["pv"] in (p, "1.4"):
                mdl.nodes[n]["pv"] = real[n]["pv"]
                del mdl.pv_undecided[n]
        want = mdl.proj()
        out.count("state_compares")
        if real == want:
            return
        diff = {k: {"real": real.get(k), "model": want.get(k)} for k in set(real) | set(want) if real.get(k) != want.get(k)}
        if set(real) != set(want):
            field = "node-set"
        else:
            fs = set()
            for d in diff.values():
                for f in ("id", "type", "pv", "sn", "sv", "bat", "hb", "ch"):
                    if d["real"][f] != d["model"][f]:
                        fs.add(f)
            field = ",".join(sorted(fs))
        out.v("C04", f"state-differs:{field}:{out.kinds[-1] if out.kinds else '?'}", f"after step {where}: {diff!r}", where)

    # ---- judging the transport log ------------------------------------------
    def judge_sends(self):
        out, eng, mdl, version = self.out, self.eng, self.mdl, self.version
        for st in sorted(self.pending):
            pe = self.pending.pop(st)
            exp, kind, burst = pe["exp"], pe["kind"], pe["burst"]
            got = eng.sent_in_step(st)
            exp_all = list(exp) + (burst["held"] + burst["sets"] if burst else [])
            missing, extra = match_multiset(exp_all, got, mdl, pe["t"])
            for e in missing:
                out.v("C05", f"missing-reply:{kind}:{entry_kind(e)}", f"step {st} ({kind}): expected {e!r} not emitted; got {got!r}", st)
                if burst is not None:
                    out.v("C08", f"burst-missing:{entry_kind(e)}", f"wake-up step {st}: {e!r} not emitted; got {got!r}", st)
                if e[0].startswith("fw") or kind.startswith("fw") or kind == "set-reboot":
                    out.v("C10", f"ota-missing:{kind}:{entry_kind(e)}", f"step {st} ({kind}): expected {e!r}; got {got!r}", st)
                if kind.startswith("req"):
                    out.v("C08", f"req-answer:{kind}", f"value request at step {st}: expected {e!r}; got {got!r}", st)
            for l in extra:
                out.v("C05", f"extra-reply:{kind}", f"step {st} ({kind}): unexpected {l!r}; expected {exp_all!r}", st)
                if burst is not None:
                    out.v("C08", "burst-extra", f"wake-up step {st}: unexpected or duplicated {l!r}", st)
                f = parse_canon(l)
                if f and (f[2] == 4 or f[2:5] == [3, 0, 13]):
                    out.v("C10", f"ota-extra:{kind}", f"step {st} ({kind}): unexpected {l!r}", st)
                if kind.startswith("req"):
                    out.v("C08", f"req-answer:{kind}", f"value request at step {st}: unexpected {l!r}", st)
            if burst is not None:
                nh = len(burst["held"])
                if not missing and not extra:
                    head = got[:nh]
                    if not all(match(e, l, mdl, pe["t"]) for e, l in zip(burst["held"], head)):
                        out.v("C08", "burst-order", f"wake-up step {st}: withheld lines not oldest-first ahead of the desired sets: got {got!r}, held {burst['held']!r}", st)
                out.bursts.append((tuple(entry_kind(e) for e in burst["held"]), len(burst["sets"]), len(got)))
            for l in got:
                f = parse_canon(l)
                if f is None:
                    out.v("C05", f"not-canonical:{kind}", f"step {st}: emitted {l!r} is not one canonical line", st)
                    # several commands glued into one write: C07 still judges every command in it
                    for part in l.splitlines(keepends=True):
                        g = parse_canon(part)
                        if g and g[2] != 4 and g[0] in pe["sleeping"] and not (burst is not None and burst["node"] == g[0]):
                            out.v("C07", f"sent-to-sleeping:{kind}", f"step {st} ({kind}): {part!r} (inside a multi-line write) sent although node {g[0]} is asleep", st)
                    continue
                if spec.accepts(version, *f) is False:
                    out.v("C05", f"emitted-invalid:{kind}:t={f[2]}:s={f[4]}", f"step {st}: emitted {l!r} is not valid for {version}", st)
                if kind != "rejected" and not (f[0] in pe["concerned"] or f[0] == 255):
                    out.v("C05", f"misaddressed:{kind}", f"step {st}: {l!r} not addressed to {sorted(pe['concerned'])} or broadcast", st)
                if f[2] != 4 and f[0] in pe["sleeping"] and not (burst is not None and burst["node"] == f[0]):
                    out.v("C07", f"sent-to-sleeping:{kind}", f"step {st} ({kind}): {l!r} sent although node {f[0]} is asleep", st)
            out.count("sends_judged", len(got))
            if got and any((parse_canon(l) or [None])[0] not in pe["sleeping"] for l in got) and pe["sleeping"]:
                out.count("sends_to_awake_while_others_sleep")
            if not got and not exp_all:
                out.count("silences_judged")
            if burst is not None:
                out.count("bursts_judged")

    # ---- driving --------------------------------------------------------------
    def run(self, steps):
        out, eng, mdl, gw = self.out, self.eng, self.mdl, self.eng.gw
        lag = 0
        for idx, stp in enumerate(steps):
            kind = stp[0]
            if kind == "metric":
                gw.metric = bool(stp[1])
                mdl.metric = bool(stp[1])
                continue
            if kind == "cbraise":
                eng.cb_raise = bool(stp[1])
                continue
            if kind == "cbset":
                eng.cb_set_armed = True
                continue
            if kind == "cbfw":
                eng.cb_fw_armed = (stp[1], stp[2], bytes.fromhex(stp[3]) if stp[3] is not None else None)
                continue
            if kind == "lag":
                lag = int(stp[1])
                continue
            drain = not (lag > 0 and eng.flavour == "sync")
            if lag > 0:
                lag -= 1
            try:
                if kind == "drain":
                    eng.drain()
                elif kind == "in":
                    nlogic = len(eng.logic_in)
                    before = snapshot(gw) if eng.mqtt else None
                    eng.feed(stp[1], drain=drain)
                    if eng.mqtt and len(eng.logic_in) == nlogic and not gw.tasks.queue:
                        # the topic never reached logic: must be a complete no-op
                        if snapshot(gw) != before:
                            out.v("C01", "rejected-topic-effect", f"step {idx}: rejected topic changed state", idx)
                elif kind == "set":
                    self.ctl_set(idx, stp, drain)
                elif kind == "fw":
                    self.ctl_fw(idx, stp, drain)
                elif kind == "reload":
                    self.reload(idx, stp[1])
                elif kind == "save":
                    self.save_only(idx, stp[1])
                else:
                    raise AssertionError(kind)
            except PumpDied:
                self.crash(idx, stp)
                break
            if eng.hook_error is not None:
                raise HarnessError(f"monitor hook failed at step {idx} {stp!r}") from eng.hook_error
            if not gw.tasks.queue:
                self.judge_sends()
        if out.crashed is None:
            try:
                eng.drain()
            except PumpDied:
                self.crash(len(steps), ["drain"])
            else:
                if eng.hook_error is not None:
                    raise HarnessError("monitor hook failed in final drain") from eng.hook_error
                self.judge_sends()
        if getattr(self, "_fwdir", None):
            import shutil
            shutil.rmtree(self._fwdir, ignore_errors=True)
            self._fwdir = None
        return out

    def save_only(self, idx, ext):
        """A periodic save happens (the node table is written to a file): nothing the gateway holds may change - neither
        the tree nor the sleep state, the withheld replies, the desired values or the reboot flags. The model is untouched."""
        import os
        import tempfile
        from mysensors.persistence import Persistence

        out, eng, gw = self.out, self.eng, self.eng.gw
        before = snapshot(gw)
        d = tempfile.mkdtemp(prefix="vf-save-")
        try:
            Persistence(gw.sensors, lambda save: (lambda: None), persistence_file=os.path.join(d, f"net.{ext}")).save_sensors()
        except Exception as exc:
            raise HarnessError(f"save through {ext} failed at step {idx}") from exc
        finally:
            for f in os.listdir(d):
                os.remove(os.path.join(d, f))
            os.rmdir(d)
        after = snapshot(gw)
        out.count("saves_in_history")
        if after != before:
            parts = [nm for nm, a, b in zip(("tree", "transient", "ota", "can_log"), before, after) if a != b]
            for prop in ("C08", "C07", "C04"):
                if prop in self.props:
                    out.v(prop, f"save-changes-live-state:{ext}:{','.join(parts)}", f"step {idx}: saving the node table as {ext} changed the gateway's own {parts}", idx)
                    break

    def reload(self, idx, ext):
        """The node table goes through the persistence file and back (what a restart does to it): the tree survives,
        the transient per-node state (sleep, withheld replies, desired values, reboot flag) starts empty again."""
        import os
        import tempfile
        from mysensors.persistence import Persistence

        out, eng, mdl, gw = self.out, self.eng, self.mdl, self.eng.gw
        eng.drain()
        self.judge_sends()
        d = tempfile.mkdtemp(prefix="vf-reload-")
        path = os.path.join(d, f"net.{ext}")
        try:
            Persistence(gw.sensors, lambda save: (lambda: None), persistence_file=path).save_sensors()
            gw.sensors.clear()
            Persistence(gw.sensors, lambda save: (lambda: None), persistence_file=path).safe_load_sensors()
        except Exception as exc:
            raise HarnessError(f"reload through {ext} failed at step {idx}") from exc
        finally:
            for f in os.listdir(d):
                os.remove(os.path.join(d, f))
            os.rmdir(d)
        mdl.sleeping.clear()
        mdl.held.clear()
        mdl.wake_children.clear()
        mdl.desired.clear()
        mdl.reboot.clear()
        out.count("reloads")

    def crash(self, idx, stp):
        out, eng = self.out, self.eng
        exc = eng.pump_exc
        out.crashed = (idx, exc)
        sig = core.exc_sig(exc)
        out.v("C01", f"pump-exception:{sig}", f"step {idx} {stp!r}: message processing raised {type(exc).__name__}: {exc}", idx)
        last = eng.logic_in[-1][1] if eng.logic_in else None
        msg = lib_verdict(last, self.version)[0] if last is not None else None
        if msg is not None and msg.type == 4:
            out.v("C10", f"ota-exception:{sig}", f"stream request {last!r} raised {type(exc).__name__}: {exc}", idx)
        if msg is not None and msg.type == 3 and msg.sub_type in (22, 32):
            out.v("C08", f"wake-exception:{sig}", f"wake-up {last!r} raised {type(exc).__name__}: {exc}", idx)
        if msg is not None and msg.type == 2:
            out.v("C08", f"req-exception:{sig}", f"value request {last!r} raised {type(exc).__name__}: {exc}", idx)

    def ctl_set(self, idx, stp, drain):
        out, eng, mdl = self.out, self.eng, self.mdl
        n, c, vt, value = stp[1:5]
        kw = stp[5] if len(stp) > 5 else {}
        sleeping = frozenset(mdl.sleeping)
        t0 = time.time()
        err = eng.call("set", n, c, vt, value, drain=False, **kw)
        st = eng.step
        try:
            ivt = int(vt)
        except (TypeError, ValueError):
            ivt = None
        raised = err is not None
        sval = str(value)
        r = mdl.set_child_value(n, c, ivt, sval, raised)
        out.kinds.append(r["kind"])
        if raised:
            out.count("ctl_set_refused")
        if r["kind"] == "ctl-set-desired":
            out.count("desired_stored")
            if ivt is None:
                out.v("C08", "nonint-valuetype-accepted", f"set_child_value accepted value type {vt!r}", idx)
            elif carriable(sval) and spec.accepts(self.version, n, c, 1, 0, ivt, sval) is False:
                out.v("C08", f"unsendable-desired-accepted:vt={ivt}", f"set_child_value({n},{c},{vt!r},{value!r}) returned normally but that command is not valid for {self.version}", idx)
        self.pending[st] = dict(exp=r["sends"], kind=r["kind"], concerned={n}, t=t0, burst=None, sleeping=sleeping)
        if drain:
            eng.drain()

    def ctl_fw(self, idx, stp, drain):
        out, eng, mdl = self.out, self.eng, self.mdl
        nids, ft, fv, fhex = stp[1:5]
        sleeping = frozenset(mdl.sleeping)
        if isinstance(fhex, str) and fhex.startswith("HEXFILE:"):
            # update through an Intel-HEX FILE at one fixed path per history: first a valid file ("HEXFILE:<image hex>"), later
            # ("HEXFILE:garbage") the file at that very path replaced by garbage of the same size and modification time -
            # the second call has no firmware and must change nothing
            import os
            import tempfile

            if getattr(self, "_fwdir", None) is None:
                self._fwdir = tempfile.mkdtemp(prefix="vf-fwfile-")
            path = os.path.join(self._fwdir, "firmware.hex")
            what = fhex[8:]
            if what == "garbage":
                if not os.path.exists(path):
                    out.kinds.append("ctl-fw-skipped")
                    return
                st_ = os.stat(path)
                with open(path, "w", encoding="utf-8") as fh:
                    fh.write(("not a hex file " * (st_.st_size // 15 + 1))[:st_.st_size])
                os.utime(path, ns=(st_.st_atime_ns, st_.st_mtime_ns))
                eng.call("fwpath", nids, ft, fv, path, drain=False)
                out.kinds.append("ctl-fw-file-without-firmware")
                out.count("fw_files_replaced_by_garbage")
            else:
                img = bytes.fromhex(what)
                with open(path, "w", encoding="utf-8") as fh:
                    fh.write(to_ihex(img))
                err = eng.call("fwpath", nids, ft, fv, path, drain=False)
                try:
                    it, iv = int(ft), int(fv)
                except (TypeError, ValueError):
                    it = iv = None
                if it is not None and 0 <= it <= 65535 and 0 <= iv <= 65535 and err is None and img:
                    mdl.update_fw(nids, it, iv, img)
                out.kinds.append("ctl-fw")
                out.count("fw_files_loaded")
            self.pending[eng.step] = dict(exp=[], kind="ctl-fw", concerned=set(), t=time.time(), burst=None, sleeping=sleeping)
            if drain:
                eng.drain()
            return
        if isinstance(fhex, str) and fhex.startswith("FILE:"):
            # update through a firmware FILE that carries no firmware (Intel-HEX without data records, blank, missing):
            # there is nothing to schedule - the call must leave sessions, reboot flags and loaded firmware alone
            import os
            import tempfile

            d = tempfile.mkdtemp(prefix="vf-fw-")
            path = os.path.join(d, "fw.hex")
            content = {"eof-only": ":00000001FF\n", "address-only": ":020000040000FA\n:00000001FF\n", "blank": "\n", "empty": "", "missing": None}[fhex[5:]]
            try:
                if content is not None:
                    with open(path, "w", encoding="utf-8") as fh:
                        fh.write(content)
                eng.call("fwpath", nids, ft, fv, path, drain=False)
            finally:
                if os.path.exists(path):
                    os.remove(path)
                os.rmdir(d)
            out.kinds.append("ctl-fw-file-without-firmware")
            out.count("fw_files_without_firmware")
            self.pending[eng.step] = dict(exp=[], kind="ctl-fw", concerned=set(), t=time.time(), burst=None, sleeping=sleeping)
            if drain:
                eng.drain()
            return
        fbin = bytes.fromhex(fhex) if fhex is not None else None
        err = eng.call("fw", nids, ft, fv, fbin, drain=False)
        st = eng.step
        try:
            it, iv = int(ft), int(fv)
        except (TypeError, ValueError):
            it = iv = None
        if it is not None and 0 <= it <= 65535 and 0 <= iv <= 65535 and err is None:
            if fbin is None or 0 < len(fbin) <= 16 * 65535 - 128:
                mdl.update_fw(nids, it, iv, fbin)
        out.kinds.append("ctl-fw")
        self.pending[st] = dict(exp=[], kind="ctl-fw", concerned=set(), t=time.time(), burst=None, sleeping=sleeping)
        if drain:
            eng.drain()


def run_history(cfg, steps, props=("C01", "C04", "C05", "C07", "C08", "C10")):
    return LockStep(cfg, props).run(steps)
