"""C07 - nothing is sent to a sleeping node outside its wake window."""
from ..lockprops import make_jobs, replay_lock, run_lock_job

ID = "C07"
LEVEL = "exploration"
PROFILE = {"garbage": 0.05, "ctl": 0.2, "semicolon": False, "sleep": True, "ota": True, "reload": 0.05, "unicode": 0.05, "lag": True}


def jobs(tier, seed):
    q = tier == "quick"
    return make_jobs(seed, 32 if q else 128, 40 if q else 200, 80, ["2.0", "2.1", "2.2"], ["sync", "async", "sync"], PROFILE)


def normal_forms(res, cfg, steps, out):
    held = out.stats.get("bursts_judged", 0)
    passing = out.stats.get("sends_to_awake_while_others_sleep", 0)
    if held and passing:
        lagpat = tuple(i for i, s in enumerate(steps) if s[0] == "lag")
        res.nontrivial((cfg["version"], cfg["flavour"], tuple(out.kinds), lagpat))
    res.count("released_lines", sum(b[2] for b in out.bursts))
    res.count("bursts_releasing_withheld", sum(1 for b in out.bursts if b[0]))


def run(job):
    return run_lock_job(ID, job, normal_forms)


def replay(case):
    return replay_lock(ID, case)


def finish(agg, tier):
    c = agg["counters"]
    return {
        "rule": "histories over 2.0-2.2 with 2-3 nodes of which some announce smart sleep, every kind of outbound traffic "
                "(value/config/time replies, reboot and presentation requests, controller sets, OTA responses as the exempt class), "
                "with the threaded pump randomly lagging by 1-4 lines (arrival order vs. drain point). Each send is attributed to "
                "the job that produced it; a non-stream line for a node that was asleep when that job ran must belong to that "
                "node's wake-up step; a line of another node found in a burst is a delay violation. distinct = (version, flavour, "
                "model event sequence, lag positions); non-trivial when >= 1 burst was judged and >= 1 line for an awake node "
                "passed while another node slept.",
        "floors": [("bursts_judged", c.get("bursts_judged", 0), 1500), ("bursts_releasing_withheld", c.get("bursts_releasing_withheld", 0), 500),
                   ("sends_to_awake_while_others_sleep", c.get("sends_to_awake_while_others_sleep", 0), 1500),
                   ("reloads", c.get("reloads", 0), 200)],
        "assumptions": ["in a third of the histories the node table goes through the persistence file (json / pickle) and back at random points: the tree survives, sleep state, withheld replies, desired values and reboot flags start empty",
                        "'asleep' is the model's notion: announced smart sleep while having >= 1 child"],
        "show": ["histories", "bursts_judged", "bursts_releasing_withheld", "released_lines", "sends_to_awake_while_others_sleep"],
    }
