"""C20 - connections are supervised and the callbacks are exact."""
import itertools
import os

from .. import core
from ..core import Result

ID = "C20"
LEVEL = "fault_enumeration"
TIMEOUT = {"quick": 900, "thorough": 7200}
ALPHA = {
    ("serial", "threaded"): ["refuse", "ok", "read-error", "write-error", "disconnect", "traffic", "stop"],
    ("tcp", "threaded"): ["refuse", "timeout", "ok", "read-error", "write-error", "peer-eof", "peer-reset", "disconnect", "silence", "stop"],
    ("serial", "asyncio"): ["refuse", "ok", "read-error", "disconnect", "traffic", "stop"],
    ("tcp", "asyncio"): ["refuse", "timeout", "ok", "read-error", "peer-eof", "peer-reset", "disconnect", "silence", "stop"],
}
RTS = [3.0, 0.5, 10.0]


def all_sequences(alpha, maxlen):
    for n in range(1, maxlen + 1):
        for combo in itertools.product(alpha, repeat=n):
            yield list(combo)


def jobs(tier, seed):
    q = tier == "quick"
    out = []
    for (kind, fl), alpha in ALPHA.items():
        seqs = list(all_sequences(alpha, 3 if q else 4))
        n = 6 if q else 24
        for i in range(n):
            out.append({"kind": "sequences", "gw": kind, "flavour": fl, "seqs": seqs[i::n], "seed": seed, "i": i})
        out.append({"kind": "random", "gw": kind, "flavour": fl, "seed": seed, "n": 40 if q else 1500, "maxlen": 12})
    for fl in ("threaded", "asyncio"):
        out.append({"kind": "watchdog", "flavour": fl, "seed": seed})
    # real-device sample: real loopback sockets / ptys, real threads and loop, wall-clock time (one lifetime per job)
    import random
    rng = random.Random(seed * 7919 + 5)
    for gw in ("tcp", "serial"):
        loss = ["loss-eof", "loss-rst"] if gw == "tcp" else ["unplug"]
        fixed = [["traffic"] + loss + ["traffic", "down", "traffic"], ["down"] + loss[-1:] + ["traffic"], loss[:1] * 3 + ["traffic"],
                 ["traffic", "disconnect"], loss[-1:] + ["disconnect"]]
        if gw == "tcp":
            fixed += [["traffic", "silence", "traffic"], ["silence", "loss-rst", "silence"]]
        alpha = ["traffic", "down"] + loss + (["silence"] if gw == "tcp" else [])
        for fl in ("threaded", "asyncio"):
            scripts = list(fixed) + [[rng.choice(alpha) for _ in range(rng.randint(2, 5))] for _ in range(1 if q else 12)]
            for k, sc in enumerate(scripts):
                out.append({"kind": "real", "gw": gw, "flavour": fl, "script": sc, "rt": [0.4, 0.3, 0.6][(k + seed) % 3], "hold": 0.0,
                            "neighbour": fl == "threaded" and k % 2 == 1})
            if gw == "tcp":
                out.append({"kind": "real", "gw": gw, "flavour": fl, "script": ["traffic"], "rt": 0.5, "hold": 3.0})   # answering link held for 6 x rt
    # real churn: the device keeps killing the link while commands are being written; callbacks must stay exact
    for gw in ("tcp", "serial"):
        for fl in ("threaded", "asyncio"):
            for i in range(1 if q else 4):
                out.append({"kind": "real-churn", "gw": gw, "flavour": fl, "seed": seed * 100 + i,
                            "pace": [[0.05, 0.1, 0.3], [0.003, 0.01, 0.03, 0.08], [0.2, 0.4, 0.6]][i % 3], "churn": [3.0, 2.0, 4.0][i % 3]})
    only = os.environ.get("VF_C20_ONLY")      # development aid: restrict to one job kind
    if only:
        out = [j for j in out if j["kind"] == only]
    return out


def run_life(gw, fl, seed, script, rt, answer=0.1, hold=0.0, stop_on_loss=False, made_raises=False):
    from .. import lifetimes as L

    if fl == "threaded":
        return L.run_threaded(gw, seed, script, rt=rt, answer=answer, hold=hold)
    ev, meta = L.run_async(gw, seed, script, rt=rt, answer=answer, hold=hold, stop_on_loss=stop_on_loss, made_raises=made_raises)
    meta["stop_on_loss"] = stop_on_loss
    meta["made_raises"] = made_raises
    return ev, meta


def judge(res, ev, meta, extra=()):
    from .. import lifetimes as L

    V = L.check(ev, meta) + list(extra)
    res.evals += 1
    res.count("lifetimes")
    res.count("events", len(ev))
    made = sum(1 for e in ev if e[1] == "MADE")
    lost = sum(1 for e in ev if e[1] == "LOST")
    attempts = sum(1 for e in ev if e[1] == "CONNECT-BEGIN")
    res.count("made_callbacks", made)
    res.count("lost_callbacks", lost)
    res.count("connect_attempts", attempts)
    res.count("writes", sum(1 for e in ev if e[1] == "WRITE"))
    if meta.get("other_thread_errors"):
        res.count("lifetimes_where_a_reader_or_connect_thread_ended_with_an_exception")
    if meta.get("open_after_stop"):
        res.count("lifetimes_with_a_connection_left_open_after_stop")      # outside the statement; reported, not judged
    if meta.get("start_raised"):
        res.count("lifetimes_where_start_raised_because_stop_ran_during_connect")
    if lost >= 1 and attempts >= 2:
        res.nontrivial((meta["kind"], meta["flavour"], tuple(meta["script"]), meta["rt"], meta.get("answer")))
        res.count("lifetimes_with_loss_and_reconnect")
        res.count(f"loss_and_reconnect[{meta['kind']}/{meta['flavour']}]")
    case = {"gw": meta["kind"], "flavour": meta["flavour"], "script": meta["script"], "rt": meta["rt"], "seed": meta["seed"],
            "answer": meta.get("answer"), "hold": meta.get("hold", 0.0), "stop_on_loss": meta.get("stop_on_loss", False), "made_raises": meta.get("made_raises", False)}
    for sig, what in V:
        res.violation(sig, what + f"  [script {meta['script']} rt={meta['rt']} seed={meta['seed']}]", dict(case, log=[list(map(str, e)) for e in ev if e[1] != "SLEEP"][:80]))
    return V


def rerun_fresh(job):
    """The signatures check_real finds for one more run of the job's lifetime in a fresh interpreter (None: could not run)."""
    import json
    import subprocess
    import sys

    code = ("import json, os, sys\n"
            "from vf import core\ncore.use_repo()\n"
            "from vf import realdev as R\n"
            f"job = json.loads({json.dumps(json.dumps(job))})\n"
            "ev, meta = R.run_real(job['gw'], job['flavour'], job['script'], rt=job['rt'], hold=job.get('hold', 0.0), neighbour=job.get('neighbour', False))\n"
            "sys.stdout.write('SIGS ' + json.dumps([s for s, _ in R.check_real(ev, meta)]) + '\\n')\n"
            "sys.stdout.flush()\nos._exit(0)\n")
    try:
        p = subprocess.run([sys.executable, "-c", code], capture_output=True, text=True, timeout=240)
    except subprocess.TimeoutExpired:
        return None
    for line in p.stdout.splitlines():
        if line.startswith("SIGS "):
            return json.loads(line[5:])
    return None


def run_real_job(job, res, reproduce=2):
    """One real lifetime. An anomaly counts only when the same lifetime shows it again on every re-run (wall-clock
    deadlines on a loaded machine must not become verdicts)."""
    from .. import realdev as R

    tag = f"{job['gw']}/{job['flavour']}"

    def once():
        try:
            ev, meta = R.run_real(job["gw"], job["flavour"], job["script"], rt=job["rt"], hold=job.get("hold", 0.0), neighbour=job.get("neighbour", False))
        except (OSError, RuntimeError) as exc:
            if isinstance(exc, OSError) and exc.errno in (1, 13, 97, 99, 2, 19):
                return None, None, repr(exc)
            raise
        return ev, meta, None

    ev, meta, unavailable = once()
    if unavailable:
        res.count("real_device_unavailable")
        res.notes.append(f"real-device sample unavailable here: {unavailable}")
        return
    V = R.check_real(ev, meta)
    res.evals += 1
    res.count("real_lifetimes")
    res.count(f"real_lifetimes[{tag}]")
    if meta.get("neighbour"):
        res.count("real_lifetimes_beside_a_gateway_that_keeps_dialling")
    res.count("real_events", len(ev))
    res.count("real_made_callbacks", sum(1 for e in ev if e[1] == "MADE"))
    res.count("real_lost_callbacks", sum(1 for e in ev if e[1] == "LOST"))
    res.count("real_connect_attempts", sum(1 for e in ev if e[1] == "CONNECT-BEGIN"))
    res.count("real_failed_connect_attempts", sum(1 for e in ev if e[1] == "CONNECT-END" and e[2] == "fail"))
    res.count("real_wait_timeouts", sum(1 for e in ev if e[1] == "WAIT-TIMEOUT"))
    if meta.get("other_thread_errors"):
        res.count("real_lifetimes_where_a_reader_or_connect_thread_ended_with_an_exception")
    if sum(1 for e in ev if e[1] == "LOST") >= 1 and sum(1 for e in ev if e[1] == "CONNECT-BEGIN") >= 2:
        res.nontrivial(("real", job["gw"], job["flavour"], tuple(job["script"]), job["rt"]))
    if V and reproduce:
        keep = {s for s, _ in V}
        for _ in range(reproduce):
            # each re-run in a process of its own: what an earlier lifetime left behind in this one (threads, module
            # state) must neither produce nor mask the anomaly
            sigs = rerun_fresh(job)
            if sigs is None:
                keep = set()
                break
            keep &= set(sigs)
            if not keep:
                break
        dropped = [s for s, _ in V if s not in keep]
        if dropped:
            res.count("real_anomalies_not_reproduced", len(dropped))
            res.notes.append(f"real-device anomaly not reproduced on re-run (not judged): {dropped[:3]} script={job['script']} {tag}")
        V = [(s, w) for s, w in V if s in keep]
    case = {"real": True, "gw": job["gw"], "flavour": job["flavour"], "script": job["script"], "rt": job["rt"], "hold": job.get("hold", 0.0), "neighbour": job.get("neighbour", False)}

    def show(e):
        return [str(x)[:60] for x in e]

    for sig, what in V:
        res.violation(sig, what + f"  [real device, script {job['script']} rt={job['rt']}]", dict(case, log=[show(e) for e in ev][:120]))
    if job.get("hold") or job["script"][:1] == ["down"]:
        res.sample({"real": True, "gw": job["gw"], "flavour": job["flavour"], "script": job["script"], "rt": job["rt"],
                    "log": [show(e) for e in ev if e[1] not in ("RX", "ANSWER")][:30]})


def run_real_churn(job, res):
    """Real gateway + real device under connection churn with commands in flight: callback exactness and supervision.
    Not replayable bit for bit: an anomaly counts when its signature shows again in at least one of two re-runs."""
    from .. import realdev as R

    tag = f"{job['gw']}/{job['flavour']}"

    def once(seed):
        fn = R.run_stress if job["flavour"] == "threaded" else R.run_stress_async
        try:
            out = fn(job["gw"], seed, churn_s=job["churn"], pace=tuple(job["pace"]))
        except OSError as exc:
            if exc.errno in (1, 13, 97, 99, 2, 19):
                return None, None, repr(exc)
            raise
        V = [(s_, w) for s_, w in R.check_stress(out) if s_.startswith(("real-stress:commands-dropped", "real-stress:link-not"))]
        V = [(s_.replace("real-stress:", "real-churn:") + f":{job['flavour']}", w) for s_, w in V] + R.check_churn_callbacks(out, job["flavour"])
        return out, V, None

    out, V, un = once(job["seed"])
    if un:
        res.count("real_device_unavailable")
        res.notes.append(f"real-device churn unavailable here: {un}")
        return
    ev = out["events"]
    st = out["stats"]
    res.evals += 1
    res.count("real_churn_runs")
    res.count(f"real_churn_runs[{tag}]")
    res.count("real_churn_connections_killed", st["drops"])
    res.count("real_churn_made_callbacks", sum(1 for e in ev if e[1] == "MADE"))
    res.count("real_churn_lost_callbacks", sum(1 for e in ev if e[1] == "LOST"))
    res.count("real_churn_commands_received", st["received"])
    if st["drops"] >= 3:
        res.nontrivial(("real-churn", job["gw"], job["flavour"], job["seed"]))
    if V:
        again = set()
        for k in (1, 2):
            o2, V2, un2 = once(job["seed"] + 7919 * k)
            if V2:
                again |= {s_ for s_, _ in V2}
        dropped = [s_ for s_, _ in V if s_ not in again]
        if dropped:
            res.count("real_anomalies_not_reproduced", len(dropped))
            res.notes.append(f"real-churn anomaly not seen again in two re-runs (not judged): {dropped[:3]} {tag} seed={job['seed']}")
        V = [(s_, w) for s_, w in V if s_ in again]
    case = {"real_churn": True, "gw": job["gw"], "flavour": job["flavour"], "seed": job["seed"], "pace": job["pace"], "churn": job["churn"], "stats": st,
            "thread_errors": [list(map(str, e)) for e in out["errors"][:8]]}
    for sig, what in V:
        res.violation(sig, what + f"  [real {job['gw']} device, {job['flavour']}, {st['drops']} connections killed under traffic]", case)


def run(job):
    import faulthandler

    res = Result()
    faulthandler.dump_traceback_later(600, exit=True)
    try:
        if job["kind"] == "sequences":
            for k, script in enumerate(job["seqs"]):
                rt = RTS[(k + job["i"]) % 3]
                seed = job["seed"] * 1000 + k % 7
                # asyncio: in every fourth lifetime the application stops the gateway from its loss callback
                sol = job["flavour"] == "asyncio" and k % 4 == 3
                # ... and in every fourth its connection-made callback raises on the first connection
                mr = job["flavour"] == "asyncio" and k % 4 == 1
                ev, meta = run_life(job["gw"], job["flavour"], seed, script, rt, stop_on_loss=sol, made_raises=mr)
                if mr and any(e[1] == "MADE" for e in ev):
                    res.count("lifetimes_whose_made_callback_raised")
                if sol and any(e[1] == "LOST" and e[3] is not None for e in ev):
                    res.count("lifetimes_stopped_from_the_loss_callback")
                judge(res, ev, meta)
                if k == 0 and job["i"] == 0:
                    res.sample({"gw": job["gw"], "flavour": job["flavour"], "script": script, "rt": rt,
                                "log": [list(map(str, e)) for e in ev if e[1] != "SLEEP"][:25]})
        elif job["kind"] == "real":
            run_real_job(job, res)
        elif job["kind"] == "real-churn":
            run_real_churn(job, res)
        elif job["kind"] == "random":
            rng = core.rng_for(ID, job["seed"], job["gw"], job["flavour"])
            alpha = ALPHA[(job["gw"], job["flavour"])] + (["wedge"] if (job["gw"], job["flavour"]) == ("tcp", "asyncio") else [])
            for k in range(job["n"]):
                script = [rng.choice(alpha) for _ in range(rng.randint(4, job["maxlen"]))]
                ev, meta = run_life(job["gw"], job["flavour"], rng.randint(0, 10**6), script, rng.choice(RTS))
                judge(res, ev, meta)
        else:
            from .. import lifetimes as L

            fl = job["flavour"]
            for rt in RTS:
                for frac in (0.0, 0.5, 0.9):
                    lat = round(frac * rt, 3)
                    ev, meta = run_life("tcp", fl, job["seed"], ["ok"], rt, answer=lat, hold=7 * rt)
                    meta["hold"] = 7 * rt
                    judge(res, ev, meta, L.check_watchdog(ev, meta, "answering"))
                    res.count("watchdog_answering_links")
                    res.nontrivial(("watchdog", fl, rt, lat))
                ev, meta = run_life("tcp", fl, job["seed"], ["ok"], rt, answer=None, hold=5 * rt)
                meta["hold"] = 5 * rt
                judge(res, ev, meta, L.check_watchdog(ev, meta, "silent"))
                res.count("watchdog_silent_links")
                res.nontrivial(("watchdog", fl, rt, "silent"))
                ev, meta = run_life("tcp", fl, job["seed"], ["ok", "traffic", "silence"], rt, answer=0.1 * rt, hold=5 * rt)
                meta["hold"] = 5 * rt
                judge(res, ev, meta, L.check_watchdog(ev, meta, "silent"))
                res.count("watchdog_silent_links")
                res.nontrivial(("watchdog", fl, rt, "silent-later"))
                if fl == "asyncio":
                    # the device stops reading as well: the probes stay in the transport's write buffer
                    ev, meta = run_life("tcp", fl, job["seed"], ["ok", "traffic", "wedge"], rt, answer=0.1 * rt, hold=5 * rt)
                    meta["hold"] = 5 * rt
                    judge(res, ev, meta, L.check_watchdog(ev, meta, "silent"))
                    res.count("watchdog_silent_links")
                    res.count("watchdog_links_with_unsent_data")
                    res.nontrivial(("watchdog", fl, rt, "wedged"))
                    # the same with an application whose connection-made callback raises on the first connection
                    ev, meta = run_life("tcp", fl, job["seed"], ["ok"], rt, answer=None, hold=5 * rt, made_raises=True)
                    meta["hold"] = 5 * rt
                    judge(res, ev, meta, L.check_watchdog(ev, meta, "silent"))
                    res.count("watchdog_silent_links")
                    res.count("watchdog_links_whose_made_callback_raised")
                    ev, meta = run_life("tcp", fl, job["seed"], ["ok"], rt, answer=0.5 * rt, hold=7 * rt, made_raises=True)
                    meta["hold"] = 7 * rt
                    judge(res, ev, meta, L.check_watchdog(ev, meta, "answering"))
                    res.count("watchdog_answering_links")
                    res.count("watchdog_links_whose_made_callback_raised")
            res.sample({"kind": "watchdog", "flavour": fl, "rts": RTS, "latencies": [0.0, 0.5, 0.9]})
    finally:
        faulthandler.cancel_dump_traceback_later()
    return res


def replay(case):
    from .. import lifetimes as L

    res = Result()
    if case.get("real_churn"):
        run_real_churn({"gw": case["gw"], "flavour": case["flavour"], "seed": case["seed"], "pace": case["pace"], "churn": case["churn"]}, res)
        return res
    if case.get("real"):
        run_real_job({"gw": case["gw"], "flavour": case["flavour"], "script": case["script"], "rt": case["rt"], "hold": case.get("hold", 0.0), "neighbour": case.get("neighbour", False)}, res)
        return res
    ev, meta = run_life(case["gw"], case["flavour"], case["seed"], case["script"], case["rt"], answer=case.get("answer", 0.1), hold=case.get("hold", 0.0),
                        stop_on_loss=case.get("stop_on_loss", False), made_raises=case.get("made_raises", False))
    extra = []
    if case.get("hold"):
        extra = L.check_watchdog(ev, meta, "answering" if case.get("answer") is not None and "silence" not in case["script"] else "silent")
    judge(res, ev, meta, extra)
    return res


def finish(agg, tier):
    c = agg["counters"]
    return {
        "rule": "simulated lifetimes of SerialGateway / TCPGateway (deterministic thread simulation with virtual time over fake serial "
                "/ socket / select) and AsyncSerialGateway / AsyncTCPGateway (virtual-time asyncio loop over asyncio-style fake "
                "transports): every fault sequence up to length 3 (quick) / 4 (thorough) over {connect refused, connect timeout, "
                "connect ok, read error, write error, peer orderly close, peer reset, user disconnect, traffic, silence, stop-now (also while "
                "a connect attempt or a retry pause is in progress)} plus random "
                "sequences up to length 12, each ended by stop(); reconnect_timeout in {0.5, 3, 10} virtual s. Offline checker over "
                "the event log: made/lost callback counts and shape, a connect attempt and a loss callback after every unrequested "
                "loss, retries spaced by reconnect_timeout, requests answered on live connections, nothing after stop() returned, no "
                "library thread or loop error. TCP watchdog: links answering version probes with latency 0 / 0.5 / 0.9 x rt are never "
                "dropped, silent links are dropped and re-dialled between 2 and 3 x rt. distinct = (gateway, flavour, script, rt); "
                "non-trivial when >= 1 loss and >= 1 reconnect were judged. Real-device sample: the same four gateways over real "
                "127.0.0.1 sockets and real ptys (symlinked path, unplug = path and pty disappear), the library's real threads / a real "
                "asyncio loop, wall-clock time with reconnect_timeout 0.3-0.6 s; scripts of {traffic, orderly close, reset, unplug, "
                "device away for 3.3 x rt, silent link, user disconnect} ended by stop(); oracle: callbacks exactly once per connection, "
                "connect attempt + loss callback after every unrequested loss, >= 2 retries no closer than rt while the device is away, "
                "no reconnect after a user disconnect, nothing (callbacks, connects, bytes at the device) after stop(), answered links "
                "never dropped, silent links dropped no earlier than 2 x rt, a started gateway dials at all; every other threaded lifetime runs beside a second "
                "threaded gateway of the other kind whose device is not there and which keeps dialling; an anomaly counts only if it reproduces on two "
                "re-runs, each in an interpreter of its own. In every fourth asyncio lifetime (simulated) and in extra watchdog runs the application's "
                "connection-made callback raises on the first connection: supervision of the link must not depend on it. Token `wedge` (asyncio TCP): the device "
                "stops reading as well as answering, so that what the gateway writes stays in the transport's buffer and a graceful close() never completes - the "
                "link must still be reported lost and re-dialled. Real "
                "churn: the same four gateways while three threads queue commands and the device kills the link every 3-600 ms for "
                "2-4 s, then a quiet phase, a final batch and stop(): made == lost callbacks, (TCP) accepted == made, commands flow "
                "again once the faults stop, nothing after stop().",
        "exhaustive": True,
        "floors": [("lifetimes", c.get("lifetimes", 0), 1500), ("lifetimes_with_loss_and_reconnect", c.get("lifetimes_with_loss_and_reconnect", 0), 500),
                   ("watchdog_answering_links", c.get("watchdog_answering_links", 0), 18), ("watchdog_silent_links", c.get("watchdog_silent_links", 0), 12),
                   ("lifetimes_stopped_from_the_loss_callback", c.get("lifetimes_stopped_from_the_loss_callback", 0), 40)]
                  + [(f"loss_and_reconnect[{k}/{fl}]", c.get(f"loss_and_reconnect[{k}/{fl}]", 0), 40) for (k, fl) in ALPHA]
                  + ([] if c.get("real_device_unavailable") else
                     [(f"real_lifetimes[{k}/{fl}]", c.get(f"real_lifetimes[{k}/{fl}]", 0), 5) for (k, fl) in ALPHA]
                     + [(f"real_churn_runs[{k}/{fl}]", c.get(f"real_churn_runs[{k}/{fl}]", 0), 1) for (k, fl) in ALPHA]
                     + [("real_lifetimes_beside_a_gateway_that_keeps_dialling", c.get("real_lifetimes_beside_a_gateway_that_keeps_dialling", 0), 4)])
                  + [("lifetimes_whose_made_callback_raised", c.get("lifetimes_whose_made_callback_raised", 0), 40),
                     ("watchdog_links_whose_made_callback_raised", c.get("watchdog_links_whose_made_callback_raised", 0), 6),
                     ("watchdog_links_with_unsent_data", c.get("watchdog_links_with_unsent_data", 0), 3)],
        "assumptions": ["real-device sample: deadlines are generous (6 x rt + 4 s) and anomalies must reproduce 3/3; it is skipped (noted) where ptys / loopback are unavailable",
                        "fakes mimic the failure behaviour of serial ports, sockets and asyncio transports; 'about twice' = [2, 3] x rt",
                        "on the threaded TCP gateway a peer's orderly close is only observable through a failing write or the "
                        "watchdog: loss callback and re-dial are required within 3 x rt",
                        "asyncio: 'after stop()' is judged once stop() returned and the ready handles have run",
                        "the value of the error argument of on_conn_lost is not judged"],
        "show": ["lifetimes", "lifetimes_with_loss_and_reconnect", "connect_attempts", "made_callbacks", "lost_callbacks", "watchdog_answering_links", "watchdog_silent_links",
                 "real_lifetimes", "real_made_callbacks", "real_lost_callbacks", "real_failed_connect_attempts", "real_churn_runs", "real_churn_connections_killed",
                 "real_churn_made_callbacks", "real_churn_lost_callbacks", "real_anomalies_not_reproduced"],
    }
