"""C10 - OTA sessions are gated, restartable and terminate."""
from ..lockprops import VERSIONS, make_jobs, replay_lock, run_lock_job

ID = "C10"
LEVEL = "exploration"
PROFILE = {"cbfw": True, "garbage": 0.05, "ctl": 0.2, "semicolon": False, "sleep": False, "ota": True, "unicode": 0.05}


def jobs(tier, seed):
    q = tier == "quick"
    return make_jobs(seed, 32 if q else 128, 50 if q else 220, 60, VERSIONS, ["sync", "async"], PROFILE)


OTA_KINDS = ("fw-", "ctl-fw", "set-reboot", "node-presentation", "stream-")


def normal_forms(res, cfg, steps, out):
    seq = tuple(k for k in out.kinds if k.startswith(OTA_KINDS))
    if any(k == "fw-config" for k in seq) and any(k == "ctl-fw" for k in seq):
        res.nontrivial((cfg["version"], seq))
    for k in out.kinds:
        if k.startswith("fw-") or k == "set-reboot":
            res.count("ota:" + k)
    res.count("ota_events", len(seq))


def run(job):
    return run_lock_job(ID, job, normal_forms)


def replay(case):
    return replay_lock(ID, case)


def finish(agg, tier):
    c = agg["counters"]
    return {
        "rule": "histories interleaving update calls (single ids, lists, unknown ids, missing firmware), config and block "
                "requests (well-formed, truncated, odd-length, non-hex, other type/version, out-of-range index), set messages and "
                "presentations over 2-3 nodes; every reply is compared with a per-node session automaton "
                "(none/requested/offered/fetching) and malformed requests must cause no reply, no session change, no exception. "
                "distinct = (version, sequence of OTA-relevant model events); non-trivial when it contains an update call and a "
                "config request.",
        "floors": [("ota:fw-config", c.get("ota:fw-config", 0), 500), ("ota:fw-request", c.get("ota:fw-request", 0), 500),
                   ("ota:fw-config-withheld", c.get("ota:fw-config-withheld", 0), 100),
                   ("ota:fw-config-malformed", c.get("ota:fw-config-malformed", 0), 200),
                   ("ota:fw-request-malformed", c.get("ota:fw-request-malformed", 0), 200),
                   ("ota:set-reboot", c.get("ota:set-reboot", 0), 200)],
        "assumptions": ["the reply to an out-of-range block index is unconstrained (silence or an echo with empty / 0xFF data)",
                        "whether a block request naming non-existent firmware counts as 'started fetching' is left open"],
        "show": ["histories", "ota_events", "ota:fw-config", "ota:fw-request", "ota:fw-config-withheld", "ota:set-reboot"],
    }
