"""C11 - persistence round trip is exact in both formats."""
import os
import shutil
import tempfile

from .. import core, gen
from ..core import Result

ID = "C11"
LEVEL = "exploration"
VERSIONS = ["1.4", "1.5", "2.0", "2.1", "2.2"]


def jobs(tier, seed):
    q = tier == "quick"
    return [{"seed": seed, "i": i, "n": 40 if q else 400} for i in range(32 if q else 96)]


def build_state(rng, version):
    """A reachable state: a real history (Unicode-heavy) with transient state populated."""
    from ..drive import Engine, PumpDied

    eng = Engine("async", version)
    steps = gen.history(rng, version, rng.randint(5, 60), {"garbage": 0.05, "ctl": 0.15, "sleep": True, "ota": True, "unicode": 0.6})
    extra = [["in", "255;255;3;0;3;"], ["in", "0;255;0;0;17;" + version], ["in", "255;255;0;0;18;2.0"], ["in", "0;0;0;0;0;"],
             ["in", f"254;255;0;0;17;{version}"], ["in", "254;254;0;0;23;"], ["in", "254;254;1;0;24;" + gen.payload(rng)[0]]]
    if version >= "2.0":
        extra.append(["in", "254;255;3;0;22;" + str(rng.choice([0, 1, 2**31, 2**64 + 5, 10**30]))])
    for e in extra:
        if rng.random() < 0.5:
            steps.insert(rng.randint(0, len(steps)), e)
    used = []
    for s in steps:
        try:
            if s[0] == "in":
                eng.feed(s[1])
            elif s[0] == "set":
                eng.call("set", *s[1:5])
            elif s[0] == "fw" and not str(s[4]).startswith("FILE:"):
                eng.call("fw", s[1], s[2], s[3], bytes.fromhex(s[4]) if s[4] else None)
            else:
                continue
            used.append(s)
        except PumpDied:
            break
    return eng, used


def shape(proj, transient):
    nn = len(proj)
    nc = sum(len(n["ch"]) for n in proj.values())
    nv = sum(len(c["vals"]) for n in proj.values() for c in n["ch"].values())
    flags = (any(n["type"] is None for n in proj.values()),
             any(not c["vals"] for n in proj.values() for c in n["ch"].values()),
             any(c["desc"] == "" for n in proj.values() for c in n["ch"].values()),
             any(not str(v).isascii() for n in proj.values() for c in n["ch"].values() for v in c["vals"].values()),
             0 in proj, 255 in proj, transient)
    return (min(nn, 6), min(nc, 8), min(nv, 10), flags)


def judge_case(res, version, steps, eng, tmp, flavour):
    from mysensors.persistence import Persistence
    from ..drive import projection, strict, transient
    from ..persist import PGateway, transient_empty

    orig = projection(eng.gw.sensors)
    tr = transient(eng.gw)[0]
    has_tr = any(q or any(ns.values()) or rb for (q, ns, rb) in tr.values())
    loaded = {}
    case = {"version": version, "steps": steps, "flavour": flavour}
    for ext in ("json", "pickle"):
        path = os.path.join(tmp, f"s{os.getpid()}.{ext}")
        for f in (path, path + ".bak"):
            if os.path.exists(f):
                os.remove(f)
        try:
            Persistence(eng.gw.sensors, lambda save: (lambda: None), persistence_file=path).save_sensors()
        except Exception as exc:
            res.violation(f"save-raises:{ext}:{core.exc_sig(exc)}", f"saving a reachable state as {ext} raised {type(exc).__name__}: {exc}", case)
            continue
        pg = PGateway(flavour, version, path)
        try:
            pg.start()
        except Exception as exc:
            res.violation(f"load-raises:{ext}:{core.exc_sig(exc)}", f"start_persistence on the saved {ext} raised {type(exc).__name__}: {exc}", case)
            continue
        got = projection(pg.gw.sensors)
        loaded[ext] = got
        res.count("loads_judged")
        if strict(got) != strict(orig):
            lost = sorted(set(orig) - set(got))
            fields = set()
            for k in set(orig) & set(got):
                for f in orig[k]:
                    if strict(orig[k][f]) != strict(got[k][f]):
                        fields.add(f)
            key_types = sorted({type(k).__name__ for k in got} | {type(c).__name__ for n in got.values() for c in n["ch"]}
                               | {type(v).__name__ for n in got.values() for c in n["ch"].values() for v in c["vals"]})
            res.violation(f"roundtrip-differs:{ext}:{'nodes' if lost or set(got) - set(orig) else ','.join(sorted(fields))}:keys={','.join(key_types)}",
                          f"{ext}: loaded state differs (lost {lost}, fields {sorted(fields)}, key types {key_types})", case)
        bad = transient_empty(pg.gw)
        if bad:
            res.violation(f"transient-resurrected:{ext}:{','.join(sorted({b[1] for b in bad}))}", f"{ext}: transient state after load: {bad[:4]}", case)
        if has_tr:
            res.count("loads_with_transient_before_save")
        pg.stop()
        pg.close()
    if len(loaded) == 2 and strict(loaded["json"]) != strict(loaded["pickle"]):
        res.violation("formats-differ", "JSON and pickle restore different states", case)
    if len(loaded) == 2:
        res.nontrivial(shape(orig, has_tr))
    for f in os.listdir(tmp):
        os.remove(os.path.join(tmp, f))


def run(job):
    res = Result()
    rng = core.rng_for(ID, job["seed"], job["i"])
    tmp = tempfile.mkdtemp(prefix="vf-c11-")
    try:
        for h in range(job["n"]):
            version = VERSIONS[h % 5]
            eng, steps = build_state(rng, version)
            res.evals += 1
            judge_case(res, version, steps, eng, tmp, ["sync", "async"][(h // 5) % 2])
            if h == 0 and job["i"] == 0:
                from ..drive import projection
                res.sample({"version": version, "steps": steps[:12], "nodes": sorted(projection(eng.gw.sensors))})
    finally:
        shutil.rmtree(tmp, ignore_errors=True)
    return res


def replay(case):
    from ..drive import Engine, PumpDied

    res = Result()
    tmp = tempfile.mkdtemp(prefix="vf-c11-")
    try:
        eng = Engine("async", case["version"])
        for s in case["steps"]:
            try:
                if s[0] == "in":
                    eng.feed(s[1])
                elif s[0] == "set":
                    eng.call("set", *s[1:5])
                elif s[0] == "fw" and not str(s[4]).startswith("FILE:"):
                    eng.call("fw", s[1], s[2], s[3], bytes.fromhex(s[4]) if s[4] else None)
            except PumpDied:
                break
        judge_case(res, case["version"], case["steps"], eng, tmp, case.get("flavour", "sync"))
    finally:
        shutil.rmtree(tmp, ignore_errors=True)
    return res


def finish(agg, tier):
    c = agg["counters"]
    return {
        "rule": "states produced by real histories (Unicode-heavy payloads, id-assigned nodes without type, children without "
                "values, ids 0/254/255, huge heartbeat integers, empty descriptions) with transient state (withheld replies, desired "
                "values, reboot flags) populated before the save; saved with Persistence.save_sensors as .json and .pickle, loaded "
                "by a fresh threaded / asyncio gateway's start_persistence(). Strict type-tagged projections (1 != '1', int keys) "
                "compared original vs JSON vs pickle; transient state must be empty after load. distinct = structural shape (node / "
                "child / value counts, None-type / empty-values / empty-description / non-ASCII / id 0 / id 255 / transient flags).",
        "floors": [("loads_judged", c.get("loads_judged", 0), 2000),
                   ("loads_with_transient_before_save", c.get("loads_with_transient_before_save", 0), 500)],
        "assumptions": ["projection = node/child/value tree and node attributes as exposed on gateway.sensors"],
        "show": ["loads_judged", "loads_with_transient_before_save"],
    }
