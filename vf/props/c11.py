"""C11 - persistence round trip is exact in both formats."""
import os
import shutil
import tempfile

from .. import core, gen
from ..core import Result

ID = "C11"
LEVEL = "exploration"
VERSIONS = ["1.4", "1.5", "2.0", "2.1", "2.2"]


def jobs(tier, seed):
    q = tier == "quick"
    out = [{"seed": seed, "i": i, "n": 40 if q else 400} for i in range(32 if q else 96)]
    out += [{"kind": "locale", "seed": seed, "i": i, "n": 5 if q else 20} for i in range(2 if q else 6)]
    return out


def build_state(rng, version):
    """A reachable state: a real history (Unicode-heavy) with transient state populated."""
    from ..drive import Engine, PumpDied

    eng = Engine("async", version)
    steps = gen.history(rng, version, rng.randint(5, 60), {"garbage": 0.05, "ctl": 0.15, "sleep": True, "ota": True, "unicode": 0.6})
    extra = [["in", "255;255;3;0;3;"], ["in", "0;255;0;0;17;" + version], ["in", "255;255;0;0;18;2.0"], ["in", "0;0;0;0;0;"],
             ["in", f"254;255;0;0;17;{version}"], ["in", "254;254;0;0;23;"], ["in", "254;254;1;0;24;" + gen.payload(rng)[0]]]
    if version >= "2.0":
        extra.append(["in", "254;255;3;0;22;" + str(rng.choice([0, 1, 2**31, 2**64 + 5, 10**30]))])
    for e in extra:
        if rng.random() < 0.5:
            steps.insert(rng.randint(0, len(steps)), e)
    used = []
    for s in steps:
        try:
            if s[0] == "in":
                eng.feed(s[1])
            elif s[0] == "set":
                eng.call("set", *s[1:5])
            elif s[0] == "fw" and not str(s[4]).startswith(("FILE:", "HEXFILE:")):
                eng.call("fw", s[1], s[2], s[3], bytes.fromhex(s[4]) if s[4] else None)
            else:
                continue
            used.append(s)
        except PumpDied:
            break
    return eng, used


def shape(proj, transient):
    nn = len(proj)
    nc = sum(len(n["ch"]) for n in proj.values())
    nv = sum(len(c["vals"]) for n in proj.values() for c in n["ch"].values())
    flags = (any(n["type"] is None for n in proj.values()),
             any(not c["vals"] for n in proj.values() for c in n["ch"].values()),
             any(c["desc"] == "" for n in proj.values() for c in n["ch"].values()),
             any(not str(v).isascii() for n in proj.values() for c in n["ch"].values() for v in c["vals"].values()),
             0 in proj, 255 in proj, transient)
    return (min(nn, 6), min(nc, 8), min(nv, 10), flags)


def judge_case(res, version, steps, eng, tmp, flavour, then=None):
    from mysensors.persistence import Persistence
    from ..drive import projection, strict, transient
    from ..persist import PGateway, transient_empty

    loaded = {}
    case = {"version": version, "steps": steps, "flavour": flavour, "then": then}
    savers = {}
    for ext in ("json", "pickle"):
        path = os.path.join(tmp, f"s{os.getpid()}.{ext}")
        for f in (path, path + ".bak"):
            if os.path.exists(f):
                os.remove(f)
        savers[ext] = Persistence(eng.gw.sensors, lambda save: (lambda: None), persistence_file=path)
    if then:
        # the same Persistence objects save twice: first the state as built, then - after a few more messages that only
        # touch node-level attributes or repeat values - the state to be judged
        for ext, pers in savers.items():
            try:
                pers.save_sensors()
            except Exception:
                pass        # judged by the second save
        for line in then:
            try:
                eng.feed(line)
            except Exception:
                break
        for pers in savers.values():
            pers.need_save = True
        res.count("second_saves_after_attribute_changes")
    orig = projection(eng.gw.sensors)
    tr = transient(eng.gw)[0]
    has_tr = any(q or any(ns.values()) or rb for (q, ns, rb) in tr.values())
    for ext in ("json", "pickle"):
        path = savers[ext].persistence_file
        try:
            savers[ext].save_sensors()
        except Exception as exc:
            res.violation(f"save-raises:{ext}:{core.exc_sig(exc)}", f"saving a reachable state as {ext} raised {type(exc).__name__}: {exc}", case)
            continue
        pg = PGateway(flavour, version, path)
        try:
            pg.start()
        except Exception as exc:
            res.violation(f"load-raises:{ext}:{core.exc_sig(exc)}", f"start_persistence on the saved {ext} raised {type(exc).__name__}: {exc}", case)
            continue
        got = projection(pg.gw.sensors)
        loaded[ext] = got
        res.count("loads_judged")
        if strict(got) != strict(orig):
            lost = sorted(set(orig) - set(got))
            fields = set()
            for k in set(orig) & set(got):
                for f in orig[k]:
                    if strict(orig[k].get(f)) != strict(got[k].get(f)):
                        fields.add(f)
            key_types = sorted({type(k).__name__ for k in got} | {type(c).__name__ for n in got.values() for c in n["ch"]}
                               | {type(v).__name__ for n in got.values() for c in n["ch"].values() for v in c["vals"]})
            res.violation(f"roundtrip-differs:{ext}:{'nodes' if lost or set(got) - set(orig) else ','.join(sorted(fields))}:keys={','.join(key_types)}",
                          f"{ext}: loaded state differs (lost {lost}, fields {sorted(fields)}, key types {key_types})", case)
        bad = transient_empty(pg.gw)
        if bad:
            res.violation(f"transient-resurrected:{ext}:{','.join(sorted({b[1] for b in bad}))}", f"{ext}: transient state after load: {bad[:4]}", case)
        if has_tr:
            res.count("loads_with_transient_before_save")
        pg.stop()
        pg.close()
    if len(loaded) == 2 and strict(loaded["json"]) != strict(loaded["pickle"]):
        res.violation("formats-differ", "JSON and pickle restore different states", case)
    if len(loaded) == 2:
        res.nontrivial(shape(orig, has_tr))
    for f in os.listdir(tmp):
        os.remove(os.path.join(tmp, f))


LOCALE_SCRIPT = r"""
import json, os, sys
sys.path.insert(0, os.environ["VF_ROOT"])
from vf import core
core.use_repo()
from vf.drive import Engine, projection, strict
from mysensors.persistence import Persistence
steps = json.load(open(sys.argv[1], encoding="utf-8"))
out = {}
for ext in ("json", "pickle"):
    eng = Engine("async", steps["version"])
    for line in steps["lines"]:
        eng.feed(line)
    path = os.path.join(sys.argv[2], "loc." + ext)
    try:
        Persistence(eng.gw.sensors, lambda save: (lambda: None), persistence_file=path).save_sensors()
    except Exception as exc:
        out[ext] = "save-raises:" + type(exc).__name__
        continue
    fresh = {}
    try:
        Persistence(fresh, lambda save: (lambda: None), persistence_file=path).safe_load_sensors()
    except Exception as exc:
        out[ext] = "load-raises:" + type(exc).__name__
        continue
    out[ext] = "same" if strict(projection(fresh)) == strict(projection(eng.gw.sensors)) else "differs:%d->%d nodes" % (len(eng.gw.sensors), len(fresh))
import locale
out["encoding"] = locale.getpreferredencoding(False)
print("RESULT " + json.dumps(out))
"""


def run_locale(job, res):
    """The round trip must not depend on the process locale: the same save + load in a child interpreter whose preferred
    encoding is not UTF-8 (LC_ALL=C, UTF-8 mode off), with non-ASCII sketch names, descriptions and values."""
    import json
    import subprocess
    import sys

    rng = core.rng_for(ID, "locale", job["seed"], job["i"])
    tmp = tempfile.mkdtemp(prefix="vf-c11-loc-")
    try:
        for k in range(job["n"]):
            version = VERSIONS[k % 5]
            lines = []
            for n in (1, 2, 200):
                lines += [f"{n};255;0;0;17;{version}", f"{n};255;3;0;11;" + gen.payload(rng, rng.choice(["latin1", "combining", "astral", "rtl"]))[0][:20],
                          f"{n};1;0;0;6;" + gen.payload(rng, rng.choice(["latin1", "astral", "ascii"]))[0][:20],
                          f"{n};1;1;0;0;{rng.randint(0, 40)}.5", f"{n};2;0;0;23;x", f"{n};2;1;0;24;" + gen.payload(rng, rng.choice(["latin1", "rtl", "combining"]))[0][:20]]
            spec_file = os.path.join(tmp, "steps.json")
            with open(spec_file, "w", encoding="utf-8") as fh:
                json.dump({"version": version, "lines": lines}, fh)
            script = os.path.join(tmp, "child.py")
            with open(script, "w", encoding="utf-8") as fh:
                fh.write(LOCALE_SCRIPT)
            env = dict(os.environ, LC_ALL="C", LANG="C", PYTHONUTF8="0", PYTHONIOENCODING="utf-8", VF_ROOT=core.VERIF, PYTHONCOERCECLOCALE="0")
            r = subprocess.run([sys.executable, "-B", script, spec_file, tmp], capture_output=True, text=True, env=env, timeout=120, encoding="utf-8", errors="replace")
            line = next((l for l in r.stdout.splitlines() if l.startswith("RESULT ")), None)
            if line is None:
                res.notes.append(f"locale child failed: {r.stderr[-300:]}")
                continue
            out = json.loads(line[7:])
            res.evals += 1
            res.count("locale_round_trips")
            if "utf" not in out.get("encoding", "").lower().replace("-", ""):
                res.count("locale_round_trips_under_a_non_utf8_locale")
            case = {"locale": True, "version": version, "lines": lines, "child_encoding": out.get("encoding")}
            for ext in ("json", "pickle"):
                if out.get(ext) != "same":
                    res.violation(f"locale-roundtrip:{ext}:{out.get(ext, '?').split(':')[0]}",
                                  f"{ext}: save + load under preferred encoding {out.get('encoding')}: {out.get(ext)}", case)
            res.nontrivial(("locale", version, k))
    finally:
        shutil.rmtree(tmp, ignore_errors=True)


def run(job):
    res = Result()
    if job.get("kind") == "locale":
        run_locale(job, res)
        return res
    rng = core.rng_for(ID, job["seed"], job["i"])
    tmp = tempfile.mkdtemp(prefix="vf-c11-")
    try:
        for h in range(job["n"]):
            version = VERSIONS[h % 5]
            eng, steps = build_state(rng, version)
            res.evals += 1
            then = None
            if h % 3 == 1 and eng.gw.sensors:
                nodes = [n for n in eng.gw.sensors if isinstance(n, int)][:4]
                then = []
                for n in nodes:
                    then += rng.sample([f"{n};255;3;0;0;{rng.randint(0, 100)}", f"{n};255;3;0;12;v{rng.randint(1, 99)}", f"{n};255;3;0;11;sk{rng.randint(1, 99)}",
                                        f"{n};255;0;0;{rng.choice([17, 18])};{version}"] + ([f"{n};255;3;0;22;{rng.randint(1, 10**6)}"] if version >= "2.0" else []), 2)
            judge_case(res, version, steps, eng, tmp, ["sync", "async"][(h // 5) % 2], then)
            if h == 0 and job["i"] == 0:
                from ..drive import projection
                res.sample({"version": version, "steps": steps[:12], "nodes": sorted(projection(eng.gw.sensors))})
    finally:
        shutil.rmtree(tmp, ignore_errors=True)
    return res


def replay(case):
    from ..drive import Engine, PumpDied

    res = Result()
    if case.get("locale"):
        run_locale({"seed": 0, "i": 0, "n": 3}, res)
        return res
    tmp = tempfile.mkdtemp(prefix="vf-c11-")
    try:
        eng = Engine("async", case["version"])
        for s in case["steps"]:
            try:
                if s[0] == "in":
                    eng.feed(s[1])
                elif s[0] == "set":
                    eng.call("set", *s[1:5])
                elif s[0] == "fw" and not str(s[4]).startswith(("FILE:", "HEXFILE:")):
                    eng.call("fw", s[1], s[2], s[3], bytes.fromhex(s[4]) if s[4] else None)
            except PumpDied:
                break
        judge_case(res, case["version"], case["steps"], eng, tmp, case.get("flavour", "sync"), case.get("then"))
    finally:
        shutil.rmtree(tmp, ignore_errors=True)
    return res


def finish(agg, tier):
    c = agg["counters"]
    return {
        "rule": "states produced by real histories (Unicode-heavy payloads, id-assigned nodes without type, children without "
                "values, ids 0/254/255, huge heartbeat integers, empty descriptions) with transient state (withheld replies, desired "
                "values, reboot flags) populated before the save; saved with Persistence.save_sensors as .json and .pickle, loaded "
                "by a fresh threaded / asyncio gateway's start_persistence(). Strict type-tagged projections (1 != '1', int keys) "
                "compared original vs JSON vs pickle; transient state must be empty after load. distinct = structural shape (node / "
                "child / value counts, None-type / empty-values / empty-description / non-ASCII / id 0 / id 255 / transient flags).",
        "floors": [("loads_judged", c.get("loads_judged", 0), 2000),
                   ("loads_with_transient_before_save", c.get("loads_with_transient_before_save", 0), 500),
                   ("second_saves_after_attribute_changes", c.get("second_saves_after_attribute_changes", 0), 200),
                   ("locale_round_trips_under_a_non_utf8_locale", c.get("locale_round_trips_under_a_non_utf8_locale", 0), 8)],
        "assumptions": ["projection = node/child/value tree and node attributes as exposed on gateway.sensors"],
        "show": ["loads_judged", "loads_with_transient_before_save", "second_saves_after_attribute_changes", "locale_round_trips_under_a_non_utf8_locale"],
    }
