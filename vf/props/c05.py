"""C05 - every reply is the prescribed one, well-formed and correctly addressed."""
from ..lockprops import VERSIONS, make_jobs, replay_lock, run_lock_job

ID = "C05"
LEVEL = "exploration"
PROFILE = {"reload": 0.04, "garbage": 0.1, "ctl": 0.15, "semicolon": False, "sleep": True, "ota": True, "unicode": 0.2, "lag": True}
TZS = ["UTC0", "XXX-5:30", "YYY3:30", "ZZZ-14", "CET-1CEST,M3.5.0,M10.5.0/3", "AAA12"]


def jobs(tier, seed):
    q = tier == "quick"
    return make_jobs(seed, 36 if q else 144, 40 if q else 200, 70, VERSIONS, ["sync", "async"], PROFILE, mqtt_frac=0.2, tz=TZS)


def normal_forms(res, cfg, steps, out):
    for ks in out.kind_states:
        res.nontrivial((cfg["version"], cfg["mqtt"], ks[0], ks[1][1], ks[1][3]))
    for k in out.kinds:
        if k == "time":
            res.count("time_replies_expected")
        if k.endswith("unknown") or k.endswith("unknown-node"):
            res.count("unknown_node_or_child_steps")


def run(job):
    return run_lock_job(ID, job, normal_forms)


def replay(case):
    return replay_lock(ID, case)


def finish(agg, tier):
    c = agg["counters"]
    return {
        "rule": "per step, the multiset of lines handed to transport.send (attributed to the step by job origin) is matched "
                "against the reference model's prescribed replies; every emitted line is re-parsed by an independent canonical "
                "parser, re-validated by vf/spec.py for the configured version and checked for its destination; time replies are "
                "compared with T+utcoffset(T) under six TZ settings. distinct = (version, transport, model event kind, any node "
                "asleep, anything withheld).",
        "floors": [("sends_judged", c.get("sends_judged", 0), 8000), ("silences_judged", c.get("silences_judged", 0), 8000),
                   ("time_replies_expected", c.get("time_replies_expected", 0), 100),
                   ("unknown_node_or_child_steps", c.get("unknown_node_or_child_steps", 0), 1000)],
        "assumptions": ["ack of value replies is unconstrained; controller values restricted to carriable payloads",
                        "time tolerance +-3 s against a value computed in the same process"],
        "extra": {"timezones": sorted(agg["sets"].get("tz", []))},
        "show": ["histories", "sends_judged", "silences_judged", "time_replies_expected", "bursts_judged"],
    }
