"""C04 - network state mirrors what the nodes reported; callbacks are exact."""
from .. import core, gen
from ..core import Result
from ..lockprops import VERSIONS, make_jobs, replay_lock, run_lock_job
from ..lockstep import run_history
from ..drive import projection

ID = "C04"
LEVEL = "exploration"
PROFILE = {"cbset": True, "garbage": 0.15, "ctl": 0.1, "semicolon": False, "sleep": True, "ota": True, "unicode": 0.25}


def jobs(tier, seed):
    q = tier == "quick"
    out = make_jobs(seed, 32 if q else 128, 40 if q else 200, 70, VERSIONS, ["sync", "async"], PROFILE, mqtt_frac=0.1)
    for j in out:
        j["kind"] = "lock"
    for i in range(8 if q else 32):
        out.append({"kind": "cbraise", "seed": seed, "i": i, "n": 30 if q else 150})
    out.append({"kind": "setters", "seed": seed, "n": 4000 if q else 40000})
    for i in range(4 if q else 16):
        out.append({"kind": "nested", "seed": seed, "i": i, "n": 10 if q else 40})
    for v in VERSIONS:
        out.append({"kind": "exhaustive", "version": v, "depth": 3 if q else 4})
    return out


def normal_forms(res, cfg, steps, out):
    if out.stats.get("callbacks_judged", 0) >= 1 and out.stats.get("accepted_lines", 0) >= 1:
        res.nontrivial((cfg["version"], cfg["flavour"], tuple(out.kinds)))


def run_cbraise(job, res):
    """A callback that raises changes nothing else: differential run against a silent callback."""
    from .. import gen

    rng = core.rng_for("c04cb", job["seed"], job["i"])
    for h in range(job["n"]):
        version = VERSIONS[h % 5]
        flavour = ["sync", "async"][(h // 5) % 2]
        cfg = {"version": version, "flavour": flavour, "mqtt": False}
        steps = [s for s in gen.history(rng, version, 50, dict(PROFILE, ctl=0.1)) if s[0] != "cbraise"]
        a = run_history(cfg, steps, props=())
        b = run_history(cfg, [["cbraise", True]] + steps, props=())
        res.evals += len(steps)
        res.count("differential_histories")
        case = {"cfg": cfg, "steps": steps, "mode": "cbraise"}
        if a.crashed or b.crashed:
            if bool(a.crashed) != bool(b.crashed):
                res.violation("raising-callback:pump-exception", "the raising callback made message processing raise", case)
            continue
        sa, sb = projection(a.eng.gw.sensors), projection(b.eng.gw.sensors)
        la = [l for (_s, _o, l) in a.eng.sent]
        lb = [l for (_s, _o, l) in b.eng.sent]
        ca = [f for (_s, f, _p) in a.eng.cbs]
        cb = [f for (_s, f, _p) in b.eng.cbs]
        norm = lambda L: ["T" if l.split(";")[2:5] == ["3", "0", "1"] else l for l in L]
        if sa != sb:
            res.violation("raising-callback:state-differs", "final state differs when the callback raises", case)
        if norm(la) != norm(lb):
            res.violation("raising-callback:output-differs", f"emitted lines differ when the callback raises", case)
        if ca != cb:
            res.violation("raising-callback:later-callbacks-differ", "callback sequence differs when the callback raises", case)
        if cb:
            res.count("raising_callbacks_fired", len(cb))
            res.nontrivial(("cbraise", version, flavour, len(cb) > 3))


# values that can reach the setters: message payloads (text), integers, and None / bool from restored files
WEIRD = [None, True, False, 0, 1, -1, 100, 101, 255, 2**70, "", " ", "0", "100", "101", "-1", "50.5", "abc", "\u0661\u0662",
         " 7 ", "1e2", "inf", "nan", "2.0", "1.4", "1.3", "2.2.0", "v2", "2", 2, "1.4.0", "0.9", "\x00", "9" * 30]


def run_setters(job, res):
    """Attribute setters never raise and never store an out-of-domain value."""
    from mysensors.sensor import Sensor

    rng = core.rng_for("c04set", job["seed"])
    for i in range(job["n"]):
        v = rng.choice(WEIRD) if rng.random() < 0.7 else rng.choice([rng.randint(-10, 300), str(rng.randint(-10, 300)), f"{rng.random() * 200 - 50:.2f}"])
        s = Sensor(1)
        res.evals += 1
        for attr in ("battery_level", "heartbeat", "protocol_version"):
            try:
                setattr(s, attr, v)
            except Exception as exc:
                res.violation(f"setter-raises:{attr}:{type(exc).__name__}", f"Sensor.{attr} = {v!r} raised {type(exc).__name__}: {exc}",
                              {"mode": "setter", "attr": attr, "value": repr(v)})
                continue
            got = getattr(s, attr)
            ok = True
            if attr == "battery_level":
                ok = isinstance(got, int) and not isinstance(got, bool) and 0 <= got <= 100
            elif attr == "heartbeat":
                ok = isinstance(got, int) and not isinstance(got, bool)
            else:
                ok = isinstance(got, str) and got != ""
            if not ok:
                res.violation(f"setter-stores-bad:{attr}", f"Sensor.{attr} = {v!r} stored {got!r}",
                              {"mode": "setter", "attr": attr, "value": repr(v)})
            res.count("setter_calls")
        res.nontrivial(("setter", type(v).__name__, repr(v)[:12]))


def alphabet(version):
    two = version >= "2.0"
    a = [["in", f"1;255;0;0;17;{version}"], ["in", "2;255;0;0;18;1.3"], ["in", "1;0;0;0;6;t"], ["in", "1;0;0;0;7;again"],
         ["in", "1;0;1;0;0;21.5"], ["in", "1;0;1;0;0;22"], ["in", "2;0;1;0;0;5"], ["in", "1;255;3;0;0;77"], ["in", "1;255;3;0;0;101"],
         ["in", "1;255;3;0;11;sketch"], ["in", "1;255;3;0;12;1.0"], ["in", "255;255;3;0;3;"], ["in", "1;0;2;0;0;"],
         ["in", "garbage"], ["set", 1, 0, 0, "30", {}]]
    if two:
        a += [["in", "1;255;3;0;22;4711"], ["in", "1;255;3;0;32;500" if version == "2.2" else "1;255;3;0;21;0"]]
    return a


def run_exhaustive(job, res):
    """All histories up to the depth bound over a small alphabet (complete for that abstract space)."""
    import itertools

    version = job["version"]
    alpha = alphabet(version)
    cfgs = [{"version": version, "flavour": "async", "mqtt": False}, {"version": version, "flavour": "sync", "mqtt": False}]
    states = set()
    for depth in range(1, job["depth"] + 1):
        for combo in itertools.product(range(len(alpha)), repeat=depth):
            steps = [alpha[i] for i in combo]
            cfg = cfgs[sum(combo) % 2]
            out = run_history(cfg, steps, props=(ID,))
            res.evals += 1
            res.count("exhaustive_histories")
            for k, v in out.stats.items():
                res.count(k, v)
            states.add(core.h(out.mdl.proj()))
            if out.stats.get("callbacks_judged", 0):
                res.nontrivial((version, combo))
            for (p, sig, what, st) in out.violations:
                if p == ID:
                    res.violation(sig, what, {"cfg": cfg, "steps": steps})
    res.add_set("abstract_states", (version, len(states)))
    res.count("abstract_states_reached", len(states))
    res.sample({"mode": "exhaustive", "version": version, "alphabet": alpha, "depth": job["depth"]})


def run_nested(job, res):
    """The event callback hands messages to a gateway while it runs: (a) to ANOTHER gateway of the process (a bridge between
    two networks) - that gateway must behave exactly as if it had been fed directly, callbacks included; (b) to the SAME
    gateway (the controller injects a line) - the injected message is handled and announced like any other."""
    from ..drive import Engine, strict

    rng = core.rng_for(ID, "nested", job["seed"], job["i"])
    for h in range(job["n"]):
        version = VERSIONS[h % len(VERSIONS)]
        flavour = ["sync", "async"][h % 2]
        lines_b = [s[1] for s in gen.history(rng, version, 40, {"garbage": 0.1, "ctl": 0.0, "sleep": True, "ota": False, "unicode": 0.2}) if s[0] == "in"]
        lines_a = [s[1] for s in gen.history(rng, version, 60, {"garbage": 0.05, "ctl": 0.0, "sleep": False, "ota": False}) if s[0] == "in"]
        ref = Engine(flavour, version)
        for line in lines_b:
            ref.feed(line)
        a, b = Engine(flavour, version), Engine(flavour, version)
        todo = list(lines_b)

        def bridge(msg):
            if todo:
                b.feed(todo.pop(0))

        a.cb_hook = bridge
        for line in lines_a:
            a.feed(line)
        fed = len(lines_b) - len(todo)
        for line in todo:            # whatever is left is fed directly, so that the comparison covers the whole list
            b.feed(line)
        res.evals += 1
        res.count("bridged_lines", fed)
        case = {"mode": "nested", "version": version, "flavour": flavour, "lines_a": lines_a, "lines_b": lines_b}
        cb_ref = [c[1] for c in ref.cbs]
        cb_b = [c[1] for c in b.cbs]
        if cb_b != cb_ref:
            res.violation(f"nested:other-gateway-callbacks-differ:{'fewer' if len(cb_b) < len(cb_ref) else 'more' if len(cb_b) > len(cb_ref) else 'other'}",
                          f"a gateway fed from inside another gateway's event callback ({fed} of {len(lines_b)} lines) called back {len(cb_b)} times, "
                          f"fed directly {len(cb_ref)} times", case)
        elif strict(projection(b.gw.sensors)) != strict(projection(ref.gw.sensors)):
            res.violation("nested:other-gateway-state-differs", "a gateway fed from inside another gateway's event callback ends in another state than when fed directly", case)
        if fed >= 3:
            res.nontrivial(("nested", version, flavour, h))
        # (b) the same gateway
        g = Engine(flavour, version)
        inj = {"done": False}

        def inject(msg):
            if not inj["done"] and msg.type == 0 and msg.child_id == 255:
                inj["done"] = True
                g.gw.logic(f"{msg.node_id};7;0;0;6;injected")

        g.cb_hook = inject
        g.feed(f"5;255;0;0;17;{version}")
        g.feed("5;1;0;0;3;d")
        kinds = [c[1][:5] for c in g.cbs]
        res.count("injected_lines")
        if 7 not in projection(g.gw.sensors).get(5, {}).get("ch", {}):
            res.violation("nested:injected-line-not-handled", "a child presentation handed to logic() from inside the event callback did not create the child", case)
        elif (5, 7, 0, 0, 6) not in kinds:
            res.violation("nested:injected-line-not-announced", f"a child presentation handed to logic() from inside the event callback was stored but never announced (callbacks: {kinds})", case)


def run(job):
    k = job.get("kind", "lock")
    if k == "lock":
        return run_lock_job(ID, job, normal_forms)
    res = Result()
    {"cbraise": run_cbraise, "setters": run_setters, "exhaustive": run_exhaustive, "nested": run_nested}[k](job, res)
    return res


def replay(case):
    if case.get("mode") == "nested":
        res = Result()
        run_nested({"seed": 0, "i": 0, "n": 10}, res)
        return res
    if case.get("mode") == "cbraise":
        res = Result()
        run_one = case
        a = run_history(case["cfg"], case["steps"], props=())
        b = run_history(case["cfg"], [["cbraise", True]] + case["steps"], props=())
        if bool(a.crashed) != bool(b.crashed) or projection(a.eng.gw.sensors) != projection(b.eng.gw.sensors):
            res.violation("raising-callback:replay", "differs", case)
        return res
    if case.get("mode") == "setter":
        res = Result()
        run_setters({"seed": 0, "n": 2000}, res)
        return res
    return replay_lock(ID, case)


def finish(agg, tier):
    c = agg["counters"]
    return {
        "rule": "lock-step histories (random + directed skeletons, 5 versions x 2 flavours, some over MQTT) with the model's "
                "projection compared after every accepted line and inside every callback; bounded-exhaustive histories over a "
                "15-17 event alphabet per version (complete up to the depth bound); raising-vs-silent callback differential; "
                "attribute-setter fuzz. distinct = sequence of abstract model events of a history; non-trivial when >= 1 accepted "
                "state change and >= 1 callback were judged.",
        "floors": [("state_compares", c.get("state_compares", 0), 20000), ("callbacks_judged", c.get("callbacks_judged", 0), 8000),
                   ("differential_histories", c.get("differential_histories", 0), 200),
                   ("raising_callbacks_fired", c.get("raising_callbacks_fired", 0), 500),
                   ("setter_calls", c.get("setter_calls", 0), 10000), ("exhaustive_histories", c.get("exhaustive_histories", 0), 15000)],
        "assumptions": ["an id request may fire 0 or 1 callbacks (placeholder node, arguable clause); stream requests 0 or 1",
                        "the model adopts the id the gateway allocated (C06 judges the choice) and the stored protocol version for "
                        "spellings the statement does not decide (e.g. '2')"],
        "show": ["histories", "state_compares", "callbacks_judged", "exhaustive_histories", "abstract_states_reached", "differential_histories"],
    }
