"""C06 - node ids are never handed out twice (also across clean stop / restart)."""
import os
import shutil
import tempfile

from .. import core, gen
from ..core import Result

ID = "C06"
LEVEL = "exploration"
VERSIONS = ["1.4", "1.5", "2.0", "2.1", "2.2"]
PRES_IDS = [0, 1, 2, 3, 100, 127, 200, 252, 253, 254, 255]


def jobs(tier, seed):
    q = tier == "quick"
    return [{"seed": seed, "i": i, "n": 40 if q else 250} for i in range(32 if q else 96)]


def history(rng, version, directed, flavour="async"):
    st = []
    if directed:
        st = [["in", "255;255;3;0;3;"], ["in", f"{rng.choice([1, 5, 40])};255;0;0;17;{version}"], ["tick"],
              ["in", "255;255;3;0;3;"], ["restart"], ["in", "255;255;3;0;3;"]]
        st = [s for s in st if rng.random() < 0.9]
        if rng.random() < 0.4:
            # the node that got the id presents itself while the application's callback is failing, then the next
            # node asks for an id
            st += [["in", "255;255;3;0;3;"], ["cbraise", True], ["present-last-id"], ["cbraise", False], ["in", "255;255;3;0;3;"],
                   ["in", "255;255;3;0;3;"]]
    if directed and flavour == "sync" and rng.random() < 0.6:
        # an id request lands while a periodic save of the timer thread is in flight (state serialised, waiting in
        # fsync, or between two writes); the application then stops cleanly and a new gateway on the same file is asked again
        st += [["in", "255;255;3;0;3;"], ["restart-during-tick", "255;255;3;0;3;", rng.choice(["fsync", "fsync", "mid-write"])],
               ["in", "255;255;3;0;3;"]]
    n = rng.randint(8, 30)
    hi = rng.random() < 0.3
    for _ in range(n):
        k = rng.random()
        if k < 0.35:
            st.append(["in", f"{rng.choice([255, 255, 255, 0, 7])};{rng.choice([255, 255, 0, 3])};3;{rng.choice([0, 0, 1])};3;"])
        elif k < 0.55:
            nid = rng.choice(PRES_IDS) if (hi or rng.random() < 0.2) else rng.choice([1, 2, 3, 4, 5, 6, 10, 20, rng.randint(0, 255)])
            st.append(["in", f"{nid};255;0;0;{rng.choice([17, 18])};{version}"])
        elif k < 0.6:
            st.append(["present-last-id"] if rng.random() < 0.6 else ["cbraise", rng.random() < 0.5])
        elif k < 0.7:
            st.append(["tick"])
        elif k < 0.82:
            st.append(["restart", "255;255;3;0;3;"] if rng.random() < 0.3 else ["restart"])
        elif k < 0.9:
            st.append(["in", gen.valid_line(rng, version)])
        else:
            st.append(["in", gen.garbage_line(rng, version)])
    return st


def judge(res, cfg, steps, out):
    for (known, handed, nid, lifetime, idx) in out["idresp"]:
        res.count("id_responses")
        if lifetime > 1:
            res.count("id_responses_after_restart")
        case = {"cfg": cfg, "steps": steps}
        if not isinstance(nid, int) or not 1 <= nid <= 254:
            res.violation("id-out-of-range", f"id response carries {nid!r}", case)
        elif nid in known:
            res.violation("id-of-known-node", f"id {nid} handed out although node {nid} is known (step {idx})", case)
        elif nid in handed:
            res.violation("id-handed-out-twice:" + ("after-restart" if lifetime > 1 else "same-lifetime"),
                          f"id {nid} handed out again at step {idx} (lifetime {lifetime}); earlier ids {handed}", case)
    if out["crashed"]:
        res.notes.append(f"history crashed: {out['crashed'][1]!r}")


def run_one(cfg, steps, tmp):
    from ..persist import run_persist_history

    path = os.path.join(tmp, f"p{os.getpid()}.{cfg['ext']}")
    for f in (path, path + ".bak"):
        if os.path.exists(f):
            os.remove(f)
    try:
        return run_persist_history(cfg, steps, path)
    finally:
        for f in os.listdir(tmp):
            os.remove(os.path.join(tmp, f))


def run(job):
    res = Result()
    rng = core.rng_for(ID, job["seed"], job["i"])
    tmp = tempfile.mkdtemp(prefix="vf-c06-")
    try:
        for h in range(job["n"]):
            cfg = {"version": VERSIONS[h % 5], "flavour": ["sync", "async"][(h // 5) % 2], "ext": ["json", "pickle"][(h // 10) % 2], "callback": h % 3 != 2}
            if h == 0:
                # the id space runs out: all but a few ids are taken by presenting nodes, the rest by id requests whose nodes
                # never present; further requests (also across a restart) must not be answered with any of them
                # (the library hands out ids above the highest known one only, so the free ids are the top ones)
                free = list(range(255 - rng.randint(1, 4), 255))
                steps = [["in", f"{i};255;0;0;17;{cfg['version']}"] for i in range(1, 255) if i not in free]
                rng.shuffle(steps)
                for _ in range(len(free)):
                    steps.append(["in", "255;255;3;0;3;"])
                    if rng.random() < 0.3:
                        steps.append(["tick"])
                steps += [["in", "255;255;3;0;3;"], ["restart"], ["in", "255;255;3;0;3;"], ["in", "255;255;3;0;3;"]]
                res.count("exhaustion_histories")
                exhaustion = len(free)
            else:
                steps = history(rng, cfg["version"], directed=rng.random() < 0.5, flavour=cfg["flavour"])
            out = run_one(cfg, steps, tmp)
            res.evals += 1
            res.count("histories")
            res.count("ticks", out["ticks"])
            res.count("restarts", len(out["restarts"]))
            res.count("id_requests_during_a_save_in_flight", out.get("stops_during_a_tick", 0))
            res.count("presentations_of_handed_out_ids", out.get("presentations_of_handed_out_ids", 0))
            judge(res, cfg, steps, out)
            if h == 0:
                res.count("exhaustion_ids_handed_out", len(out["idresp"]))
            if any(x[3] > 1 for x in out["idresp"]) or len(out["idresp"]) >= 2:
                pres = tuple(sorted({s[1].split(";")[0] for s in steps if s[0] == "in" and ";255;0;0;1" in s[1]}))
                pat = tuple(i for i, s in enumerate(steps) if s[0] in ("tick", "restart", "restart-during-tick"))
                res.nontrivial((cfg["flavour"], cfg["ext"], pres, pat, len(out["idresp"])))
            if h < 2 and job["i"] == 0:
                res.sample({"cfg": cfg, "steps": steps, "id_responses": [(x[2], x[3]) for x in out["idresp"]]})
    finally:
        shutil.rmtree(tmp, ignore_errors=True)
    return res


def replay(case):
    res = Result()
    tmp = tempfile.mkdtemp(prefix="vf-c06-")
    try:
        out = run_one(case["cfg"], case["steps"], tmp)
        judge(res, case["cfg"], case["steps"], out)
    finally:
        shutil.rmtree(tmp, ignore_errors=True)
    return res


def finish(agg, tier):
    c = agg["counters"]
    return {
        "rule": "histories mixing id requests, node presentations of ids from {0,1,..,127,252..255,random}, other traffic, save "
                "ticks (the real schedule_save body fired through a captured timer / the real asyncio save loop on a virtual clock) "
                "and stop -> new gateway -> start_persistence cycles on one file, among them (threaded flavour) an id request that arrives while a periodic "
                "save of the timer thread is in flight (paused in fsync or between two writes), followed by stop() and a restart; JSON and pickle; threaded and asyncio; one history per job "
                "fills the id space (all but 1-4 ids presented, the rest requested and never presented) and keeps requesting, also after a restart. Monitor: "
                "every id response must carry an id in 1..254 that is neither a node known immediately before the request nor an id "
                "handed out earlier (the monitor's set survives restarts). distinct = (flavour, format, presented ids, tick/restart "
                "positions, number of id responses); non-trivial when >= 2 id responses or one after a restart were judged.",
        "floors": [("id_responses", c.get("id_responses", 0), 2000), ("id_responses_after_restart", c.get("id_responses_after_restart", 0), 500),
                   ("restarts", c.get("restarts", 0), 800), ("ticks", c.get("ticks", 0), 800),
                   ("id_requests_during_a_save_in_flight", c.get("id_requests_during_a_save_in_flight", 0), 40),
                   ("exhaustion_histories", c.get("exhaustion_histories", 0), 20), ("exhaustion_ids_handed_out", c.get("exhaustion_ids_handed_out", 0), 30)],
        "assumptions": ["the converse (an id must be found whenever one is free) is not demanded"],
        "show": ["histories", "id_responses", "id_responses_after_restart", "ticks", "restarts", "id_requests_during_a_save_in_flight"],
    }
