"""C19 - behaviour depends only on the lines received (chunking- and flavour-independent)."""
from .. import core, gen
from ..core import Result

ID = "C19"
LEVEL = "exploration"
VERSIONS = ["1.4", "1.5", "2.0", "2.1", "2.2"]


def jobs(tier, seed):
    q = tier == "quick"
    out = [{"seed": seed, "i": i, "streams": 3 if q else 12, "exhaustive_upto": 200 if q else 400} for i in range(32 if q else 64)]
    out += [{"kind": "real-threads", "seed": seed, "i": i, "streams": 4 if q else 30} for i in range(8 if q else 32)]
    return out


def real_cuts(how, n):
    return {"whole": [n], "bytes": list(range(1, n + 1)), "tcp120": list(range(120, n, 120)) + [n]}.get(how, [n])


def judge_real(res, version, stream, ref, kind, how, cuts, sim_seed):
    from ..drive import strict
    from ..lifetimes import run_threaded_stream

    state, writes, errs = run_threaded_stream(kind, sim_seed, stream, cuts, version)
    res.evals += 1
    res.count("real_thread_runs")
    case = {"version": version, "stream_hex": stream.hex(), "cuts": cuts if how == "random" else cuts[:8], "seg": how, "run": "real-" + kind, "sim_seed": sim_seed}
    if errs:
        res.violation(f"real-threads:{kind}:thread-died:{errs[0][1]}", f"library thread died while receiving the stream: {errs[:2]}", case)
        return
    if state is None:
        res.notes.append("real-thread run could not connect (inconclusive)")
        return
    got_sent = norm_sent(writes)
    if strict(state) != strict(ref["state"]):
        res.violation(f"real-threads:{kind}:state-differs", f"real threaded {kind} gateway: final state differs from the line-level reference", case)
    elif sorted(got_sent) != sorted(ref["sent"]):
        res.violation(f"real-threads:{kind}:output-multiset-differs", f"real threaded {kind} gateway: emitted {got_sent!r}, reference {ref['sent']!r}", case)
    elif got_sent != ref["sent"]:
        # same commands in another order: only the known interleaving of direct replies vs spawned jobs is tolerated
        pool = {}
        for l, k in zip(ref["sent"], ref["kinds"]):
            pool.setdefault(l, []).append(k)
        lab = [pool[l].pop(0) if pool.get(l) else "?" for l in got_sent]
        gd = [l for l, k in zip(got_sent, lab) if k == "direct"]
        gs = [l for l, k in zip(got_sent, lab) if k == "spawned"]
        rd = [l for l, k in zip(ref["sent"], ref["kinds"]) if k == "direct"]
        rs = [l for l, k in zip(ref["sent"], ref["kinds"]) if k == "spawned"]
        if gd == rd and gs == rs:
            res.violation("order-differs:spawned-jobs-vs-direct-replies:lagging-threaded-pump",
                          f"real threaded {kind} gateway: same commands, spawned jobs emitted after direct replies of later lines", case)
        else:
            res.violation(f"real-threads:{kind}:order-differs", f"real threaded {kind} gateway: emitted order {got_sent!r} vs {ref['sent']!r}", case)
    res.nontrivial(("real", kind, how, core.h(stream.hex())))


def run_real_threads(job):
    """The same streams through the real reader thread + poll thread of SerialGateway / TCPGateway (thread simulation)."""
    import faulthandler
    from ..drive import strict
    from ..lifetimes import run_threaded_stream

    res = Result()
    rng = core.rng_for(ID, "real", job["seed"], job["i"])
    faulthandler.dump_traceback_later(600, exit=True)
    try:
        for sn in range(job["streams"]):
            version = VERSIONS[(sn + job["i"]) % 5]
            stream = make_stream(rng, version)
            if len(stream) < 4:
                continue
            ref = run_one(version, "async", "lines", stream, None)
            if ref["crashed"] is not None:
                continue
            n = len(stream)
            for kind in ("tcp", "serial"):
                how = rng.choice(["whole", "bytes", "tcp120", "random"])
                cuts = sorted(set(rng.sample(range(1, n), min(5, n - 1)))) + [n] if how == "random" and n > 1 else real_cuts(how, n)
                judge_real(res, version, stream, ref, kind, how, cuts, rng.randint(0, 10**6))
    finally:
        faulthandler.cancel_dump_traceback_later()
    return res


def make_stream(rng, version):
    """Bytes built from a lock-step history: valid frames, garbage, CRLF/LF, NUL, invalid UTF-8, unterminated tail."""
    steps = gen.history(rng, version, rng.randint(6, 22), {"garbage": 0.2, "ctl": 0.0, "sleep": rng.random() < 0.6, "ota": rng.random() < 0.3, "unicode": 0.3})
    out = bytearray()
    for s in steps:
        if s[0] != "in":
            continue
        line = s[1]
        if is_time_request(line):
            continue  # time replies differ between runs by construction
        b = line.replace("\n", " ").encode("utf-8", "replace")
        k = rng.random()
        if k < 0.08:
            b = b[: len(b) // 2] + bytes([rng.choice([0xFF, 0xC3, 0xE2, 0x80, 0x00])]) + b[len(b) // 2:]
        elif k < 0.12:
            b = b + b"\x00"
        out += b + (b"\r\n" if rng.random() < 0.3 else b"\n")
    if rng.random() < 0.5:
        out += rng.choice([b"1;255;3;0;6", b"1;1;1;0;2;1", b"\r", b"garbage", "1;1;1;0;47;é".encode()[:-1]])
    return bytes(out)


def is_time_request(line):
    parts = line.split(";")
    if len(parts) < 6:
        return False
    try:
        return int(parts[2]) == 3 and int(parts[4]) == 1
    except ValueError:
        return False


def norm_sent(lines):
    """Time replies carry the wall clock: compare them as 'T' (should a time request slip into a stream after all)."""
    out = []
    for l in lines:
        p = l.split(";")
        if len(p) == 6 and p[2:5] == ["3", "0", "1"] and p[5].strip().lstrip("-").isdigit():
            out.append(";".join(p[:5]) + ";T\n")
        else:
            out.append(l)
    return out


def ref_lines(stream):
    """The sequence of complete newline-terminated lines, decoded as the library documents (utf-8, replace)."""
    parts = stream.split(b"\n")
    return [p.decode("utf-8", "replace") for p in parts[:-1]]


def segmentations(rng, stream, exhaustive_upto):
    n = len(stream)
    segs = [("whole", [n])]
    if n <= exhaustive_upto:
        for c in range(1, n):
            segs.append(("cut", [c, n]))
    else:
        for c in sorted(rng.sample(range(1, n), min(n - 1, 120))):
            segs.append(("cut", [c, n]))
    segs.append(("bytes", list(range(1, n + 1))))
    segs.append(("tcp120", list(range(120, n, 120)) + [n]))
    for _ in range(6):
        k = rng.randint(2, 8)
        cuts = sorted(set(rng.sample(range(1, n), min(k, n - 1)))) + [n] if n > 1 else [n]
        segs.append(("random", cuts))
    # cuts inside multi-byte characters and between CR and LF
    special = [i for i in range(1, n) if stream[i] & 0xC0 == 0x80] + [i for i in range(1, n) if stream[i - 1:i + 1] == b"\r\n"]
    for c in special[:40]:
        segs.append(("special", [c, n]))
    return segs


def chunks(stream, cuts):
    prev = 0
    for c in cuts:
        if c > prev:
            yield stream[prev:c]
            prev = c


FOREIGN = []


def run_one(version, flavour, policy, stream, cuts, proto_kind="base"):
    """Returns dict(state, sent, kinds, crashed)."""
    from mysensors.transport import AsyncMySensorsProtocol, BaseMySensorsProtocol
    from ..drive import Engine, PumpDied, projection

    eng = Engine(flavour, version)
    if proto_kind == "tcp":
        from mysensors.gateway_tcp import AsyncTCPMySensorsProtocol as P
    else:
        P = BaseMySensorsProtocol if flavour == "sync" else AsyncMySensorsProtocol
    proto = P(eng.gw, lambda: None)
    stale = bytes(getattr(proto, "buffer", b"") or b"")
    if stale:
        # a protocol object that has never received anything already holds bytes (of another gateway's connection):
        # recorded, and cleared for this run only so that one defect does not drown the job
        FOREIGN.append((len(stale), stale[:60]))
        proto.buffer = bytearray()
    if policy == "keepup":
        orig = proto.handle_line

        def handle_line(line):
            orig(line)
            eng.drain()

        proto.handle_line = handle_line
    crashed = None
    try:
        if policy == "lines":
            for line in ref_lines(stream):
                eng.step += 1
                eng.gw.tasks.add_job(eng.gw.logic, line)
                eng.drain()
        else:
            for ch in chunks(stream, cuts):
                eng.step += 1
                proto.data_received(ch)
                if policy == "lag-chunk":
                    eng.drain()
            eng.drain()
    except PumpDied:
        crashed = eng.pump_exc
    except Exception as exc:
        crashed = exc
    sent = norm_sent([l for (_s, _o, l) in eng.sent])
    return {"state": projection(eng.gw.sensors), "sent": sent, "kinds": list(eng.sent_kind), "crashed": crashed,
            "lines": [d for (_o, d) in eng.logic_in]}


def run_reconnect(version, flavour, stream, cut, proto_kind="base", how="error"):
    """The link ends after `cut` bytes (how: 'error' = failure, 'eof' = orderly close by the peer, 'closed' = closed without
    an error) and is re-established; the rest arrives on the new connection."""
    from mysensors.transport import AsyncMySensorsProtocol, BaseMySensorsProtocol
    from ..drive import Engine, PumpDied, projection

    class Conn:
        def __init__(self):
            self.serial = self
            self.open = True

        def write(self, d):
            pass

        def close(self):
            self.open = False

    eng = Engine(flavour, version)
    if proto_kind == "tcp":
        from mysensors.gateway_tcp import AsyncTCPMySensorsProtocol as P
        eng.gw.cancel_check_conn = None
        eng.gw.server_address = ("10.0.0.1", 5003)
    else:
        P = BaseMySensorsProtocol if flavour == "sync" else AsyncMySensorsProtocol
    proto = P(eng.gw, lambda: None)
    orig = proto.handle_line

    def handle_line(line):
        orig(line)
        eng.drain()

    proto.handle_line = handle_line
    crashed = None
    try:
        proto.connection_made(Conn())
        eng.step += 1
        proto.data_received(stream[:cut])
        if how == "error":
            proto.connection_lost(OSError("link failure"))
        else:
            if how == "eof" and hasattr(proto, "eof_received"):
                proto.eof_received()
            proto.connection_lost(None)
        proto.connection_made(Conn())
        eng.step += 1
        proto.data_received(stream[cut:])
        eng.drain()
    except PumpDied:
        crashed = eng.pump_exc
    except Exception as exc:
        crashed = exc
    return {"state": projection(eng.gw.sensors), "sent": norm_sent([l for (_s, _o, l) in eng.sent]), "kinds": list(eng.sent_kind),
            "crashed": crashed, "lines": [d for (_o, d) in eng.logic_in]}


def compare(res, ref, got, what, case, allow_interleave):
    from ..drive import strict

    if got["crashed"] is not None or ref["crashed"] is not None:
        if (got["crashed"] is None) != (ref["crashed"] is None):
            res.violation(f"{what}:raises", f"{what}: one run raised {got['crashed'] or ref['crashed']!r}, the other did not", case)
        return
    if got["lines"] != ref["lines"]:
        i = next((j for j, (a, b) in enumerate(zip(got["lines"], ref["lines"])) if a != b), min(len(got["lines"]), len(ref["lines"])))
        res.violation(f"{what}:lines-differ", f"{what}: the lines handed to the gateway differ at #{i}: {got['lines'][i:i + 1]!r} vs {ref['lines'][i:i + 1]!r} ({len(got['lines'])} vs {len(ref['lines'])} lines)", case)
        return
    if strict(got["state"]) != strict(ref["state"]):
        res.violation(f"{what}:state-differs", f"{what}: final state differs", case)
        return
    if got["sent"] == ref["sent"]:
        return
    if sorted(got["sent"]) != sorted(ref["sent"]):
        res.violation(f"{what}:output-multiset-differs", f"{what}: emitted commands differ as a multiset: {got['sent']!r} vs {ref['sent']!r}", case)
        return
    gd = [l for l, k in zip(got["sent"], got["kinds"]) if k == "direct"]
    rd = [l for l, k in zip(ref["sent"], ref["kinds"]) if k == "direct"]
    gs = [l for l, k in zip(got["sent"], got["kinds"]) if k == "spawned"]
    rs = [l for l, k in zip(ref["sent"], ref["kinds"]) if k == "spawned"]
    if gd == rd and gs == rs:
        if allow_interleave:
            res.violation("order-differs:spawned-jobs-vs-direct-replies:lagging-threaded-pump",
                          f"{what}: same commands, but jobs spawned while handling a line are emitted after direct replies of lines that were already queued: {got['sent']!r} vs {ref['sent']!r}", case)
        else:
            res.violation(f"{what}:order-differs:interleaving", f"{what}: direct replies and spawned jobs interleave differently: {got['sent']!r} vs {ref['sent']!r}", case)
    else:
        res.violation(f"{what}:order-differs", f"{what}: emitted order differs beyond the direct/spawned interleaving: {got['sent']!r} vs {ref['sent']!r}", case)


def run(job):
    if job.get("kind") == "real-threads":
        return run_real_threads(job)
    res = Result()
    rng = core.rng_for(ID, job["seed"], job["i"])
    for sn in range(job["streams"]):
        version = VERSIONS[(sn + job["i"]) % 5]
        stream = make_stream(rng, version)
        if len(stream) < 4:
            continue
        nlines = stream.count(b"\n")
        ref = run_one(version, "async", "lines", stream, None)
        res.count("streams")
        res.count("reference_lines", nlines)
        segs = segmentations(rng, stream, job["exhaustive_upto"])
        for si, (sk, cuts) in enumerate(segs):
            case = {"version": version, "stream_hex": stream.hex(), "cuts": cuts if len(cuts) < 40 else cuts[:40], "seg": sk}
            inside_line = any(c < len(stream) and stream[c - 1:c] != b"\n" for c in cuts[:-1])
            # (1) asyncio protocol, any segmentation == line-level reference
            a = run_one(version, "async", "chunk", stream, cuts, "tcp" if si % 3 == 0 else "base")
            compare(res, ref, a, "async-segmentation", dict(case, run="async"), False)
            # (3) threaded protocol with the pump keeping up == asyncio
            k = run_one(version, "sync", "keepup", stream, cuts)
            compare(res, ref, k, "threaded-pump-keeping-up", dict(case, run="sync-keepup"), False)
            res.evals += 2
            res.count("runs_compared", 2)
            if sk in ("whole", "bytes", "tcp120", "random") or si % 7 == 0:
                # (2) threaded protocol, pump drained only at the end: identical across segmentations
                if "sync_end_ref" not in locals() or sync_end_ref[0] != sn:
                    sync_end_ref = (sn, run_one(version, "sync", "drain-end", stream, [len(stream)]))
                e = run_one(version, "sync", "drain-end", stream, cuts)
                compare(res, sync_end_ref[1], e, "threaded-segmentation", dict(case, run="sync-drain-end"), False)
                # (4) threaded protocol with a lagging pump (drained after each chunk) vs asyncio
                g = run_one(version, "sync", "lag-chunk", stream, cuts)
                compare(res, ref, g, "threaded-pump-lagging", dict(case, run="sync-lag"), True)
                res.evals += 2
                res.count("runs_compared", 2)
            if nlines >= 2 and inside_line:
                res.nontrivial((core.h(stream.hex()), tuple(cuts[:6]), sk))
            res.count("seg:" + sk)
        # (5) a link failure and reconnect inside / between lines: the two flavours must still agree with each other
        for c in sorted(set([1, len(stream) // 3, len(stream) // 2, len(stream) - 1] + [rng.randrange(1, len(stream)) for _ in range(6)])):
            if not 0 < c < len(stream):
                continue
            b = run_reconnect(version, "sync", stream, c)
            for (pk, how) in (("base", "error"), ("tcp", "error"), ("tcp", "eof"), ("base", "closed")):
                a = run_reconnect(version, "async", stream, c, pk, how)
                compare(res, a, b, f"flavours-across-reconnect:{pk}:{how}", {"version": version, "stream_hex": stream.hex(), "cuts": [c], "seg": "reconnect", "run": "reconnect", "proto": pk, "how": how}, False)
                res.evals += 1
                res.count("reconnect_comparisons")
        if FOREIGN:
            n, head = FOREIGN[0]
            res.violation("fresh-protocol-holds-bytes-of-an-earlier-connection",
                          f"a newly created protocol object of a new gateway starts with {n} bytes in its receive buffer ({head!r}...): "
                          f"what a gateway does depends on what other gateways of the process received", {"version": version, "stream_hex": stream.hex(), "cuts": [len(stream)], "seg": "whole", "run": "async"})
            del FOREIGN[:]
        if sn == 0 and job["i"] == 0:
            res.sample({"version": version, "stream": stream.decode("utf-8", "replace")[:300], "segmentations": len(segs),
                        "kinds": sorted({s[0] for s in segs})})
    return res


def replay(case):
    res = Result()
    stream = bytes.fromhex(case["stream_hex"])
    version = case["version"]
    ref = run_one(version, "async", "lines", stream, None)
    cuts = case["cuts"]
    if cuts[-1] != len(stream):
        cuts = cuts + [len(stream)]
    r = case.get("run", "async")
    if r.startswith("real-"):
        how = case["seg"]
        judge_real(res, version, stream, ref, r[5:], how, case["cuts"] if how == "random" else real_cuts(how, len(stream)), case.get("sim_seed", 0))
        return res
    if r == "reconnect":
        c = case["cuts"][0]
        compare(res, run_reconnect(version, "async", stream, c, case.get("proto", "base"), case.get("how", "error")), run_reconnect(version, "sync", stream, c),
                f"flavours-across-reconnect:{case.get('proto', 'base')}:{case.get('how', 'error')}", case, False)
        return res
    if r == "async":
        compare(res, ref, run_one(version, "async", "chunk", stream, cuts), "async-segmentation", case, False)
    elif r == "sync-keepup":
        compare(res, ref, run_one(version, "sync", "keepup", stream, cuts), "threaded-pump-keeping-up", case, False)
    elif r == "sync-drain-end":
        compare(res, run_one(version, "sync", "drain-end", stream, [len(stream)]), run_one(version, "sync", "drain-end", stream, cuts), "threaded-segmentation", case, False)
    else:
        compare(res, ref, run_one(version, "sync", "lag-chunk", stream, cuts), "threaded-pump-lagging", case, True)
    return res


def finish(agg, tier):
    c = agg["counters"]
    return {
        "rule": "byte streams built from lock-step histories (valid frames, garbage, CRLF and LF, embedded NUL, invalid UTF-8, "
                "multi-byte characters, unterminated tail) fed through the real protocol classes (BaseMySensorsProtocol, "
                "AsyncMySensorsProtocol, AsyncTCPMySensorsProtocol); segmentations: every single cut point (exhaustive for streams "
                "up to the size bound), all 1-byte chunks, 120-byte chunks, random k-way splits, cuts inside multi-byte characters "
                "and between CR and LF. Reference = an asyncio gateway fed the independently split complete lines. Compared: the "
                "lines handed to the gateway, the final strict projection, the emitted sequence; for the lagging threaded pump the "
                "multiset and the direct-reply / spawned-job subsequences; additionally the two flavours are compared with each other when "
                "the link fails and is re-established at a cut point; and the same streams are fed in chunks to the REAL threaded serial "
                "and TCP gateways (pyserial ReaderThread / TCPTransport.run with recv(120), the real poll thread and SyncTransport.send) "
                "under the deterministic thread simulation. distinct = (stream, cut positions); non-trivial when the "
                "stream has >= 2 complete lines and a cut falls inside a line.",
        "floors": [("runs_compared", c.get("runs_compared", 0), 15000), ("streams", c.get("streams", 0), 60),
                   ("seg:special", c.get("seg:special", 0), 300), ("seg:cut", c.get("seg:cut", 0), 5000), ("reconnect_comparisons", c.get("reconnect_comparisons", 0), 500),
                   ("real_thread_runs", c.get("real_thread_runs", 0), 40)],
        "assumptions": ["time requests are excluded from the streams (their replies differ between runs by construction)",
                        "'pump keeping up' = the poll loop body runs between two lines; 'lagging' = it runs after each chunk"],
        "show": ["streams", "reference_lines", "runs_compared", "seg:cut", "seg:special"],
    }
