"""C01 - the message pump cannot be crashed or tricked by input."""
from .. import core, gen
from ..lockprops import VERSIONS, make_jobs, replay_lock, run_lock_job

ID = "C01"
LEVEL = "exploration"
PROFILE = {"garbage": 0.3, "ctl": 0.15, "semicolon": True, "sleep": True, "ota": True, "fwrange": True,
           "unicode": 0.3, "cbraise": True}


PREFIX_NAMES = ["empty", "node", "node+children", "id-assigned", "ota-requested", "ota-offered", "ota-fetching", "sleeping",
                "sleeping+held+desired", "sleeping+ota"]


def jobs(tier, seed):
    if tier == "quick":
        out = make_jobs(seed, 32, 40, 70, VERSIONS, ["sync", "async"], PROFILE, mqtt_frac=0.25)
    else:
        out = make_jobs(seed, 128, 220, 90, VERSIONS, ["sync", "async"], PROFILE, mqtt_frac=0.25)
    k = 0
    for v in VERSIONS:
        for pn in PREFIX_NAMES:
            k += 1
            out.append({"kind": "extend", "version": v, "flavour": ["sync", "async"][k % 2], "mqtt": k % 5 == 0, "prefixes": [pn], "tier": tier})
    out.append({"kind": "suite"})
    for v in ("2.1", "2.2"):
        out.append({"kind": "sched", "version": v, "new_type": True, "bound": 1 if tier == "quick" else 2})
    for i in range(4 if tier == "quick" else 16):
        out.append({"kind": "failing-disk", "seed": seed, "i": i, "n": 12 if tier == "quick" else 40})
    return out


def normal_forms(res, cfg, steps, out):
    for ks in out.kind_states:
        kind, sc = ks[0], ks[1]
        if any(sc) or kind.startswith("rejected"):
            res.nontrivial((cfg["version"], cfg["flavour"], cfg["mqtt"], kind, sc) + tuple(ks[2:]))
    for s in steps:
        if s[0] == "set":
            res.count("controller_set_calls")
            if isinstance(s[4], str) and ";" in s[4]:
                res.count("controller_values_with_semicolon")
        elif s[0] == "fw":
            res.count("controller_fw_calls")


def run_failing_disk(job):
    """Persistence is on and the disk fails (full, gone) while lines are handled: whatever the handlers do with the
    file, no exception may come out of message processing - lines are input, the disk is not the pump's business."""
    import errno
    import os
    import shutil
    import tempfile
    from ..core import Result
    from ..drive import Engine, PumpDied
    from ..fsshim import Shim

    res = Result()
    rng = core.rng_for(ID, "failing-disk", job["seed"], job["i"])
    tmp = tempfile.mkdtemp(prefix="vf-c01-disk-")
    try:
        for h in range(job["n"]):
            version = VERSIONS[h % len(VERSIONS)]
            flavour = ["sync", "async"][(h // 5) % 2]
            ext = ["json", "pickle"][h % 2]
            path = os.path.join(tmp, f"net{h}.{ext}")
            eng = Engine(flavour, version, persistence_file=path)
            steps = [["in", "255;255;3;0;3;"], ["in", f"1;255;0;0;17;{version}"], ["in", "1;1;0;0;3;d"], ["in", "255;255;3;0;3;"]]
            steps += [s for s in gen.history(rng, version, 30, {"garbage": 0.1, "ctl": 0.1, "sleep": True, "ota": False, "unicode": 0.2}) if s[0] in ("in", "set")]
            steps += [["in", "255;255;3;0;3;"], ["in", "9;255;3;0;0;50"]]
            sh = Shim("fail-all", err=rng.choice([errno.ENOSPC, errno.EIO, errno.EROFS])).install()
            died = None
            try:
                for s in steps:
                    try:
                        if s[0] == "in":
                            eng.feed(s[1])
                        else:
                            eng.call("set", *s[1:5])
                    except PumpDied:
                        died = (s, eng.pump_exc)
                        break
            finally:
                sh.uninstall()
            res.evals += len(steps)
            res.count("failing_disk_histories")
            res.count("failing_disk_lines", len(steps))
            res.count("failing_disk_file_ops_refused", sh.n)
            res.nontrivial(("failing-disk", version, flavour, ext, h))
            if died is not None:
                s, exc = died
                res.violation(f"pump-exception-with-failing-disk:{core.exc_sig(exc)}",
                              f"with persistence on and the disk failing, handling {s!r} raised {type(exc).__name__}: {exc}",
                              {"kind": "failing-disk", "version": version, "flavour": flavour, "ext": ext, "steps": steps})
    finally:
        shutil.rmtree(tmp, ignore_errors=True)
    return res


def run(job):
    if job.get("kind") == "suite":
        from ..core import Result
        from .c02 import run_suite_under_contracts

        res = Result()
        run_suite_under_contracts(res, which=("contract:rejected-line-effect",))
        res.evals += 1
        return res
    if job.get("kind") == "extend":
        return run_extend(job)
    if job.get("kind") == "failing-disk":
        return run_failing_disk(job)
    if job.get("kind") == "sched":
        # the poll thread handling a wake-up while a controller thread calls set_child_value (see props/c08.py)
        from .c08 import run_sched
        return run_sched(job)
    return run_lock_job(ID, job, normal_forms, confirm_crash=True)


def replay(case):
    if case.get("kind") == "failing-disk":
        return run_failing_disk({"seed": 0, "i": 0, "n": 10})
    if case.get("kind") == "sched":
        from .c08 import run_sched
        return run_sched({"kind": "sched", "version": case["version"], "new_type": case["new_type"], "bound": case.get("bound", 1)})
    return replay_lock(ID, case)


def finish(agg, tier):
    c = agg["counters"]
    return {
        "rule": "generated histories (directed smart-sleep and OTA skeletons, then grammar-random valid lines, byte-mutated / "
                "out-of-table / rule-violating lines, controller set calls with arbitrary Unicode incl. ';' and line breaks, "
                "firmware updates) over 5 versions x {threaded pump, asyncio} x {plain, MQTT}. Oracle (a): no exception leaves the "
                "pump (crashes re-run on the real poll thread); (b): a line the library rejects changes nothing (tree, queues, "
                "desired values, reboot flags, OTA stores, can_log), sends nothing, fires no callback, subscribes to nothing. "
                "Bounded-exhaustive part: 10 canonical prefix states (empty, node, children with values, id-assigned, OTA "
                "requested/offered/fetching, sleeping, sleeping with withheld replies and desired values, sleeping with OTA) x command "
                "-1..5 x sub-type -1..max+2 x the payload corpus of the rule (plus malformed hex for stream requests) x known/unknown "
                "node and child, one extension line each. The repository's own 730 tests are run once more with a contract on the real "
                "Gateway.logic (a line the library rejects returns None and leaves the network state untouched). "
                "distinct = (version, flavour, transport, model event kind, abstract state class before, command, sub-type); "
                "non-trivial when the prior state is non-empty or the line is rejected.",
        "floors": [("rejected_lines", c.get("rejected_lines", 0), 5000), ("accepted_lines", c.get("accepted_lines", 0), 20000),
                   ("controller_set_calls", c.get("controller_set_calls", 0), 1000),
                   ("controller_values_with_semicolon", c.get("controller_values_with_semicolon", 0), 20),
                   ("controller_fw_calls", c.get("controller_fw_calls", 0), 300),
                   ("extension_lines", c.get("extension_lines", 0), 60000), ("failing_disk_histories", c.get("failing_disk_histories", 0), 40),
                   ("contract_evaluations:Gateway.logic:rejected", c.get("contract_evaluations:Gateway.logic:rejected", 0), 20)],
        "assumptions": ["sync pump emulation = the body of SyncTasks._poll_queue (reply = run_job(); transport.send(reply)); a crash "
                        "seen there is reported only if the real threaded pump also dies on the shrunk history",
                        "'rejected' is the library's own decode/validate verdict; C03 pins that verdict to the serial API"],
        "show": ["histories", "steps", "accepted_lines", "rejected_lines", "controller_set_calls", "crashes_replayed_on_real_pump"],
    }


# ---------------------------------------------------------------------------
# bounded-exhaustive part: every (state class) x (command) x (sub-type in table +-2) x (payload class) x (known/unknown
# node and child) single-line extension of canonical prefix histories
def prefixes(version):
    from .. import gen
    import random

    two = version >= "2.0"
    rng = random.Random(7)
    P = {"empty": [], "node": [["in", f"1;255;0;0;17;{version}"]],
         "node+children": [["in", f"1;255;0;0;17;{version}"], ["in", "1;1;0;0;23;c1"], ["in", "1;2;0;0;3;c2"], ["in", "1;1;1;0;24;v"], ["in", "1;2;1;0;2;1"]],
         "id-assigned": [["in", "255;255;3;0;3;"], ["in", "1;1;0;0;23;c1"], ["in", "1;1;1;0;24;v"]]}
    img = bytes(range(200)).hex()
    base = P["node+children"]
    def w(x):
        return f"{x & 0xff:02X}{(x >> 8) & 0xff:02X}"
    cfg = w(1) + w(2) + w(5) + w(0x1234) + w(0x0101)
    P["ota-requested"] = base + [["fw", [1], 1, 2, img]]
    P["ota-offered"] = P["ota-requested"] + [["in", f"1;255;4;0;0;{cfg}"]]
    P["ota-fetching"] = P["ota-offered"] + [["in", f"1;255;4;0;2;{w(1) + w(2) + w(0)}"]]
    if two:
        wake = gen.wake_line(rng, version, 1)
        P["sleeping"] = base + [["in", wake]]
        P["sleeping+held+desired"] = base + [["in", wake], ["set", 1, 1, 24, "want", {}], ["in", "1;255;3;0;6;0"], ["in", "1;1;2;0;24;"],
                                             ["in", "1;3;0;0;23;late"], ["in", "1;9;1;0;0;1"]]
        P["sleeping+ota"] = P["sleeping"] + [["fw", 1, 1, 2, img], ["in", "1;1;1;0;24;x"]]
    return P


def extension_lines(version, tier):
    from .. import spec

    lines = []
    for t in (-1, 0, 1, 2, 3, 4, 5):
        top = {0: spec.MAX_PRES, 1: spec.MAX_SET, 2: spec.MAX_SET, 3: spec.MAX_INT, 4: spec.MAX_STREAM}.get(t, {version: 2})[version]
        for s in range(-1, top + 3):
            rule = spec.rule_for(version, t, s)
            if rule is None:
                pays = ["", "1"]
            else:
                corp = spec.corpus(rule)
                pays = [p for p, _ in corp] if tier == "thorough" else ([p for p, e in corp if e is True][:2] + [p for p, e in corp if e is False][:2] + [p for p, e in corp if e is None][:1])
            if t == 4 and s in (0, 2):
                n = 20 if s == 0 else 12
                pays = pays + ["0" * n, "F" * n, "0" * (n - 1), "0" * (n + 1), "zz", "0" * (n - 2) + "g0", "١" * n, "01000200" + "0" * (n - 8)]
            for p in pays:
                combos = ((1, 1), (1, 255), (1, 7), (5, 1), (5, 255), (255, 255), (0, 0)) if tier == "thorough" else ((1, 1), (1, 255), (5, 1), (255, 255))
                for (n, c) in combos:
                    lines.append(f"{n};{c};{t};0;{s};{p}")
    return lines


def run_extend(job):
    from ..core import Result
    from ..lockstep import LockStep, HarnessError
    from .. import core as _core

    res = Result()
    version, flavour, mqtt = job["version"], job["flavour"], job["mqtt"]
    cfg = {"version": version, "flavour": flavour, "mqtt": mqtt}
    P = prefixes(version)
    lines = extension_lines(version, job["tier"])
    for pname in job["prefixes"]:
        if pname not in P:
            continue
        pre = P[pname]
        ls = None
        for line in lines:
            if ls is None:
                ls = LockStep(cfg, (ID,))
                out0 = ls.run(pre)
                if out0.crashed:
                    res.notes.append(f"prefix {pname} crashed: {out0.crashed[1]!r}")
                    break
                nviol = len(ls.out.violations)
            out = ls.run([["in", line]])
            res.evals += 1
            res.count("extension_lines")
            kind = out.kinds[-1] if out.kinds else "?"
            res.nontrivial((version, flavour, mqtt, pname, kind, line.split(";")[2], line.split(";")[4]))
            new = [v for v in out.violations[nviol:] if v[0] == ID]
            for (_p, sig, what, st) in new:
                res.violation(sig, what + f" [prefix {pname}]", {"cfg": cfg, "steps": pre + [["in", line]]})
            # a rejected line leaves the state untouched (that is the property): keep the gateway; otherwise rebuild
            if new or out.crashed or not kind.startswith("rejected"):
                ls = None
            else:
                nviol = len(ls.out.violations)
                res.count("extension_rejected_lines")
    res.sample({"mode": "extend", "cfg": cfg, "prefixes": job["prefixes"], "lines": len(lines), "example": lines[len(lines) // 2]})
    return res
