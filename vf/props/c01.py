"""C01 - the message pump cannot be crashed or tricked by input."""
from ..lockprops import VERSIONS, make_jobs, replay_lock, run_lock_job

ID = "C01"
LEVEL = "exploration"
PROFILE = {"garbage": 0.3, "ctl": 0.15, "semicolon": True, "sleep": True, "ota": True, "fwrange": True,
           "unicode": 0.3, "cbraise": True}


def jobs(tier, seed):
    if tier == "quick":
        return make_jobs(seed, 32, 40, 70, VERSIONS, ["sync", "async"], PROFILE, mqtt_frac=0.25)
    return make_jobs(seed, 128, 220, 90, VERSIONS, ["sync", "async"], PROFILE, mqtt_frac=0.25)


def normal_forms(res, cfg, steps, out):
    for ks in out.kind_states:
        kind, sc = ks[0], ks[1]
        if any(sc) or kind.startswith("rejected"):
            res.nontrivial((cfg["version"], cfg["flavour"], cfg["mqtt"], kind, sc) + tuple(ks[2:]))
    for s in steps:
        if s[0] == "set":
            res.count("controller_set_calls")
            if isinstance(s[4], str) and ";" in s[4]:
                res.count("controller_values_with_semicolon")
        elif s[0] == "fw":
            res.count("controller_fw_calls")


def run(job):
    return run_lock_job(ID, job, normal_forms, confirm_crash=True)


def replay(case):
    return replay_lock(ID, case)


def finish(agg, tier):
    c = agg["counters"]
    return {
        "rule": "generated histories (directed smart-sleep and OTA skeletons, then grammar-random valid lines, byte-mutated / "
                "out-of-table / rule-violating lines, controller set calls with arbitrary Unicode incl. ';' and line breaks, "
                "firmware updates) over 5 versions x {threaded pump, asyncio} x {plain, MQTT}. Oracle (a): no exception leaves the "
                "pump (crashes re-run on the real poll thread); (b): a line the library rejects changes nothing (tree, queues, "
                "desired values, reboot flags, OTA stores, can_log), sends nothing, fires no callback, subscribes to nothing. "
                "distinct = (version, flavour, transport, model event kind, abstract state class before, command, sub-type); "
                "non-trivial when the prior state is non-empty or the line is rejected.",
        "floors": [("rejected_lines", c.get("rejected_lines", 0), 5000), ("accepted_lines", c.get("accepted_lines", 0), 20000),
                   ("controller_set_calls", c.get("controller_set_calls", 0), 1000),
                   ("controller_values_with_semicolon", c.get("controller_values_with_semicolon", 0), 20),
                   ("controller_fw_calls", c.get("controller_fw_calls", 0), 300)],
        "assumptions": ["sync pump emulation = the body of SyncTasks._poll_queue (reply = run_job(); transport.send(reply)); a crash "
                        "seen there is reported only if the real threaded pump also dies on the shrunk history",
                        "'rejected' is the library's own decode/validate verdict; C03 pins that verdict to the serial API"],
        "show": ["histories", "steps", "accepted_lines", "rejected_lines", "controller_set_calls", "crashes_replayed_on_real_pump"],
    }
