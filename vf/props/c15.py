"""C15 - periodic saving heals itself."""
import asyncio
import errno
import os
import shutil
import tempfile

from .. import core
from ..core import Result

ID = "C15"
LEVEL = "fault_enumeration"
VERSION = "2.2"
MUTATIONS = {"add-node": "50;255;0;0;17;2.2", "add-child": "1;7;0;0;6;new", "add-value": "1;0;1;0;1;55", "update-value": "1;0;1;0;0;99"}


def jobs(tier, seed):
    q = tier == "quick"
    out = []
    for fl in ("sync", "async"):
        for ext in ("json", "pickle"):
            out.append({"kind": "oserror", "flavour": fl, "ext": ext, "seed": seed})
            for mut in MUTATIONS:
                out.append({"kind": "concurrent", "flavour": fl, "ext": ext, "mut": mut, "seed": seed, "nodes": 3 if q else 6})
    out.append({"kind": "stress", "seed": seed, "rounds": 6 if q else 40})
    for fl in ("sync", "async"):
        out.append({"kind": "unwritable", "flavour": fl, "seed": seed})
    return out


SAVE_EXC = []


def install_save_recorder():
    """Observe (never alter) whether Persistence.save_sensors raised: class-level wrapper, installed once per worker."""
    from mysensors.persistence import Persistence

    if getattr(Persistence.save_sensors, "_vf", False):
        return
    orig = Persistence.save_sensors

    def save_sensors(self):
        try:
            return orig(self)
        except BaseException as exc:
            SAVE_EXC.append(exc)
            raise

    save_sensors._vf = True
    Persistence.save_sensors = save_sensors


def base_lines(nn):
    L = []
    for n in range(1, nn + 1):
        L += [f"{n};255;0;0;17;{VERSION}", f"{n};255;3;0;11;sk{n}", f"{n};0;0;0;6;c0", f"{n};0;1;0;0;2{n}.5", f"{n};1;0;0;3;c1", f"{n};1;1;0;2;1"]
    return L


def load_file(path):
    """Complete state the file loads to (fresh Persistence on a private copy), or ('error', exc)."""
    from mysensors.persistence import Persistence
    from ..drive import projection, strict

    d = tempfile.mkdtemp(prefix="vf-c15l-")
    try:
        p2 = os.path.join(d, os.path.basename(path))
        for suffix in ("", ".bak"):
            if os.path.exists(path + suffix):
                shutil.copy(path + suffix, p2 + suffix)
        sensors = {}
        try:
            Persistence(sensors, lambda s: (lambda: None), persistence_file=p2).safe_load_sensors()
        except Exception as exc:
            return ("error", exc)
        return strict(projection(sensors))
    finally:
        shutil.rmtree(d, ignore_errors=True)


def schedule_alive(pg):
    """Is a further save attempt armed?"""
    from ..persist import FAKE_THREADING

    if pg.flavour == "sync":
        return any(getattr(t.function, "__name__", "") == "schedule_save" for t in FAKE_THREADING.live())
    for t in asyncio.all_tasks(pg.loop):
        name = getattr(t.get_coro(), "__name__", "")
        if name == "save_on_schedule" and not t.done():
            return True
    return False


def cur(pg):
    from ..drive import projection, strict

    return strict(projection(pg.gw.sensors))


class WritePoint:
    """Runs `action` at the k-th write-like event of one save (a stand-in for the poll thread running concurrently)."""

    def __init__(self, k, action, second=None):
        self.k = k
        self.action = action
        self.second = second      # runs once more if the SAME tick starts writing a new file (an immediate retry)
        self.opens = 0
        self.opens_at_fire = None
        self.n = 0
        self.fired = False
        self.active = False

    def hit(self):
        if not self.active:
            return
        i = self.n
        self.n += 1
        if self.fired and self.second is not None and self.opens > self.opens_at_fire:
            second, self.second = self.second, None
            self.active = False
            try:
                second()
            finally:
                self.active = True
            return
        if i == self.k and not self.fired:
            self.opens_at_fire = self.opens
            self.fired = True
            self.active = False    # the concurrent message itself must not re-enter
            try:
                self.action()
            finally:
                self.active = True


def install_write_points(wp):
    """file.write of the persistence module + Sensor.__getstate__ (pickle reduction points)."""
    import builtins
    import mysensors.persistence as mp
    from mysensors.sensor import Sensor

    class F:
        def __init__(self, real):
            self._r = real

        def write(self, data):
            wp.hit()
            return self._r.write(data)

        def __enter__(self):
            return self

        def __exit__(self, *a):
            self._r.close()
            return False

        def __getattr__(self, n):
            return getattr(self._r, n)

    def vopen(path, mode="r", *a, **k):
        real = builtins.open(path, mode, *a, **k)
        if any(ch in mode for ch in "wa"):
            wp.opens += 1
            return F(real)
        return real

    orig_gs = Sensor.__getstate__

    def getstate(self):
        wp.hit()
        return orig_gs(self)

    had_open = "open" in mp.__dict__
    old_open = mp.__dict__.get("open")
    mp.open = vopen
    Sensor.__getstate__ = getstate

    def undo():
        Sensor.__getstate__ = orig_gs
        if had_open:
            mp.open = old_open
        else:
            mp.__dict__.pop("open", None)
    return undo


def scenario(res, flavour, ext, tmp, fault, case):
    """start; feed; tick ok; feed; tick with fault; checks; feed; tick ok; checks; stop; checks.

    fault(pg) -> context manager installed around the faulty tick; returns info dict(failed=bool, fired=bool).
    """
    from ..persist import PGateway

    path = os.path.join(tmp, f"net.{ext}")
    for f in os.listdir(tmp):
        full = os.path.join(tmp, f)
        if os.path.isdir(full) and not os.path.islink(full):
            shutil.rmtree(full)
        else:
            os.remove(full)
    if case.get("layout") == "symlink-file":
        # the configured path is a symbolic link to a file in another directory
        os.mkdir(os.path.join(tmp, "real"))
        os.mkdir(os.path.join(tmp, "link"))
        path = os.path.join(tmp, "link", f"net.{ext}")
        os.symlink(os.path.join("..", "real", f"net.{ext}"), path)
    pg = PGateway(flavour, VERSION, path)
    try:
        pg.start()
        lines = list(base_lines(case.get("nodes", 3)))
        stale = None
        if case.get("layout") == "stale-bak":
            # an earlier save died after the new file was in place and before its backup was removed: a complete but
            # OLDER state sits beside the good file as <file>.bak when the scheduled save fails
            pg.eng.feed(lines.pop(0))
            pg.tick()
            if os.path.exists(path):
                with open(path, "rb") as fh:
                    stale = fh.read()
        for l in lines:
            pg.eng.feed(l)
        pg.tick()
        if stale is not None:
            with open(pg.gw.tasks.persistence.persistence_bak, "wb") as fh:
                fh.write(stale)
            res.count("stale_backup_variants")
        saved = load_file(path)
        if saved != cur(pg):
            res.notes.append("baseline: first clean tick did not persist the state")
            return None
        pg.eng.feed("1;255;3;0;0;42")       # a change that makes the next save necessary
        pg.eng.feed("60;255;0;0;17;2.2")
        n_err0 = len(pg.tick_errors)
        pre = cur(pg)
        info = fault(pg)
        # ---- after the faulty tick
        failed = info["failed"]() if callable(info.get("failed")) else info.get("failed", False)
        pers = pg.gw.tasks.persistence
        filestate = load_file(path)
        res.count("faulty_ticks")
        if info["fired"]():
            res.count("faults_fired")
            # whatever the save did with the fault, the file must hold ONE complete state: the previously saved one, the
            # one at the start of this save, or the current one
            if isinstance(filestate, tuple) or filestate not in (saved, pre, cur(pg)):
                res.violation(f"file-not-a-complete-state-after:{case['what'].split(':')[0]}",
                              f"after {case['desc']} the file loads to {'an error: ' + repr(filestate[1]) if isinstance(filestate, tuple) else 'a state that is neither the saved, the pre-save nor the current one'}", case)
            res.count("file_states_judged")
        if failed:
            res.count("failed_saves")
            if isinstance(filestate, tuple):
                res.violation(f"previous-file-unloadable:{case['what']}", f"after a failed save ({case['desc']}) the file no longer loads: {filestate[1]!r}", case)
            elif filestate != saved and filestate != cur(pg):
                res.violation(f"previous-file-damaged:{case['what']}", f"after a failed save ({case['desc']}) the file loads to a state that is neither the previously saved nor the current one", case)
            if filestate != cur(pg) and getattr(pers, "need_save", True) is False:
                res.violation(f"failed-save-marked-saved:{case['what']}", f"after a failed save ({case['desc']}) the state is marked saved although the file is stale", case)
            if not schedule_alive(pg):
                res.violation(f"schedule-stopped:{flavour}", f"after a failed save ({case['desc']}) no further save attempt is armed ({flavour})", case)
        quiet = case.get("quiet", False)     # quiet: no further message arrives after the failed save
        if case.get("shrink"):
            # the network's serialisation gets SHORTER before the next tick (shorter names and values): a leftover of the
            # failed save must not shine through
            for l in ("1;255;3;0;11;x", "1;255;3;0;12;1", "1;255;3;0;0;1", "1;0;1;0;0;9", "2;255;3;0;11;y", "2;0;1;0;0;8", "60;255;3;0;11;z"):
                pg.eng.feed(l)
        elif not quiet:
            pg.eng.feed("61;255;0;0;17;2.2")
        if not (quiet and case.get("stop_directly")):
            pg.tick()
            if failed:
                after = load_file(path)
                if after != cur(pg):
                    res.violation(f"next-tick-does-not-heal:{flavour}" + (":quiet" if quiet else ""),
                                  f"the fault-free tick after a failed save ({case['desc']}) did not persist the then-current state" + (" (no message arrived in between)" if quiet else ""), case)
                res.count("healing_ticks_judged")
        if not quiet:
            pg.eng.feed("62;255;0;0;17;2.2")
        want = cur(pg)
        try:
            pg.stop()
        except BaseException as exc:
            if failed:
                res.violation(f"stop-raises-after-failed-save:{flavour}", f"stop() after a failed scheduled save ({case['desc']}) raised {type(exc).__name__}: {exc}", case)
            else:
                res.notes.append(f"stop raised {exc!r} without a failed save")
            return info
        if failed and load_file(path) != want:
            res.violation(f"stop-skips-final-save:{flavour}" + (":quiet" if quiet else ""), f"stop() after a failed scheduled save ({case['desc']}) did not persist the final state", case)
        res.count("stops_judged")
        return info
    finally:
        try:
            pg.stop()
        except BaseException:
            pass
        pg.close()


def run_oserror(job, res):
    from ..fsshim import Shim
    from ..persist import PGateway

    flavour, ext = job["flavour"], job["ext"]
    tmp = tempfile.mkdtemp(prefix="vf-c15-")
    try:
        # dry run of the very scenario to learn the op sequence of the save that will be disturbed (it replaces an existing
        # file, so it has the two renames and the removal of the backup; its length depends on the state at that point)
        ops = []

        def dry(pg):
            with Shim("count") as sh0:
                pg.tick()
            ops.extend(sh0.ops)
            return {"fired": lambda: False, "failed": False}

        scenario(Result(), flavour, ext, tmp, dry, {"what": "dry", "desc": "dry run"})
        if not ops:
            res.notes.append("dry run recorded no file operations")
            return
        res.add_set("ops", (flavour, ext, len(ops)))
        pts = [i for i, o in enumerate(ops) if o[0] != "write"] + [i for i, o in enumerate(ops) if o[0] == "write"][::7]
        # errno values that Python turns into OSError subclasses of their own (TimeoutError - which is also what asyncio's
        # own time-outs raise -, InterruptedError, BlockingIOError, FileNotFoundError, FileExistsError, BrokenPipeError,
        # ConnectionResetError, PermissionError): ETIMEDOUT at every non-write operation, one of the others in turn
        special = [errno.EINTR, errno.EAGAIN, errno.ENOENT, errno.EEXIST, errno.EPIPE, errno.ECONNRESET, errno.EACCES]
        for k in sorted(set(pts)):
            more = (errno.ETIMEDOUT, special[k % len(special)]) if ops[k][0] != "write" else (special[k % len(special)],) if k % 3 == 0 else ()
            for err in (errno.EIO, errno.ENOSPC) + more:
                case = {"kind": "oserror", "flavour": flavour, "ext": ext, "k": k, "what": f"oserror:{ops[k][0]}", "errno": errno.errorcode[err],
                        "desc": f"{errno.errorcode[err]} at op {k} ({ops[k][0]}) of the scheduled {ext} save"}
                holder = {}

                def fault(pg, k=k, err=err):
                    sh = Shim("fail", at=k, err=err).install()
                    n0 = len(SAVE_EXC)
                    try:
                        pg.tick()
                    finally:
                        sh.uninstall()
                    return {"fired": lambda: sh.fired, "failed": len(SAVE_EXC) > n0}
                for variant in ({}, {"quiet": True}, {"quiet": True, "stop_directly": True}, {"shrink": True}, {"layout": "symlink-file"}, {"layout": "stale-bak"}):
                    if variant and err != errno.EIO:
                        continue
                    if variant.get("layout") and ops[k][0] == "write":
                        continue
                    if variant.get("layout") == "symlink-file":
                        res.count("symlinked_file_variants")
                    res.evals += 1
                    scenario(res, flavour, ext, tmp, fault, dict(case, **variant))
                    res.nontrivial((flavour, ext, "oserror", k, err, tuple(variant)))
                    if variant.get("quiet"):
                        res.count("quiet_variants")
                    if variant.get("shrink"):
                        res.count("shrinking_variants")
                res.add_set("errnos", errno.errorcode[err])
                if err not in (errno.EIO, errno.ENOSPC):
                    res.count("faults_with_errnos_of_special_exception_classes")
        res.sample({"kind": "oserror", "flavour": flavour, "ext": ext, "ops": [o[0] for o in ops if o[0] != "write"], "points": len(set(pts))})
    finally:
        shutil.rmtree(tmp, ignore_errors=True)


def run_unwritable(job, res):
    """A scheduled save that cannot write at all (the directory is away for a moment: volume not mounted, directory being
    swapped by a backup job): nothing is written and nothing raises, so the state must stay marked unsaved, the schedule
    must go on and the next tick / stop() must persist the current state."""
    flavour = job["flavour"]
    tmp0 = tempfile.mkdtemp(prefix="vf-c15-")
    tmp = os.path.join(tmp0, "data")
    os.mkdir(tmp)
    try:
        for ext in ("json", "pickle"):
            for how in ("dir-away", "dir-replaced-by-file"):
                for variant in ({}, {"quiet": True}, {"quiet": True, "stop_directly": True}, {"shrink": True}):
                    case = {"kind": "unwritable", "flavour": flavour, "ext": ext, "what": f"unwritable:{how}",
                            "desc": f"a scheduled {ext} save while the directory is not there ({how})"}

                    def fault(pg, how=how):
                        away = tmp + ".away"
                        os.rename(tmp, away)
                        if how == "dir-replaced-by-file":
                            with open(tmp, "w") as fh:
                                fh.write("x")
                        try:
                            pg.tick()
                        finally:
                            if os.path.isfile(tmp):
                                os.remove(tmp)
                            os.rename(away, tmp)
                        return {"fired": lambda: True, "failed": True}
                    res.evals += 1
                    scenario(res, flavour, ext, tmp, fault, dict(case, **variant))
                    res.count("unwritable_ticks")
                    res.nontrivial((flavour, ext, how, tuple(variant)))
    finally:
        shutil.rmtree(tmp0, ignore_errors=True)


def run_concurrent(job, res):
    from ..persist import PGateway

    flavour, ext, mut = job["flavour"], job["ext"], job["mut"]
    line = MUTATIONS[mut]
    tmp = tempfile.mkdtemp(prefix="vf-c15-")
    try:
        # count the write points of one scheduled save of this tree
        path = os.path.join(tmp, f"net.{ext}")
        pg = PGateway(flavour, VERSION, path)
        pg.start()
        for l in base_lines(job["nodes"]) + ["1;255;3;0;0;42", "60;255;0;0;17;2.2"]:
            pg.eng.feed(l)
        wp = WritePoint(-1, lambda: None)
        undo = install_write_points(wp)
        wp.active = True
        try:
            pg.tick()
        finally:
            undo()
        npoints = wp.n
        pg.stop()
        pg.close()
        res.add_set("write_points", (flavour, ext, npoints))
        stride = 1 if npoints <= 400 else npoints // 300
        for k in range(0, npoints, stride):
            case = {"kind": "concurrent", "flavour": flavour, "ext": ext, "k": k, "mut": mut, "what": f"concurrent:{mut}", "nodes": job["nodes"],
                    "desc": f"a concurrent message ({mut}) at write point {k}/{npoints} of the scheduled {ext} save"}

            def fault(pg, k=k):
                # a burst: should the same tick start over (an immediate retry), another message lands in that attempt too
                burst = (lambda: pg.eng.feed("51;255;0;0;17;2.2")) if k % 3 == 0 else None
                wp = WritePoint(k, lambda: pg.eng.feed(line), burst)
                undo = install_write_points(wp)
                wp.active = True
                n0 = len(SAVE_EXC)
                try:
                    pg.tick()
                finally:
                    wp.active = False
                    undo()
                return {"fired": lambda: wp.fired, "failed": len(SAVE_EXC) > n0}
            res.evals += 1
            info = scenario(res, flavour, ext, tmp, fault, case)
            res.nontrivial((flavour, ext, mut, k))
            if k % 5 == 0:
                scenario(res, flavour, ext, tmp, fault, dict(case, quiet=True, stop_directly=(k % 10 == 0)))
                res.count("quiet_variants")
        res.sample({"kind": "concurrent", "flavour": flavour, "ext": ext, "mutation": mut, "line": line, "write_points": npoints})
    finally:
        shutil.rmtree(tmp, ignore_errors=True)


def _file_current(pg):
    return load_file(pg.gw.tasks.persistence.persistence_file) == cur(pg)


def run_stress(job, res):
    """Free-running cross-check: a real timer thread saving (period patched to ms) while this thread adds nodes."""
    import threading
    import time
    import mysensors.task as mtask
    from mysensors import BaseSyncGateway
    from ..drive import RecT
    from ..persist import FAKE_THREADING

    tmp = tempfile.mkdtemp(prefix="vf-c15s-")
    errors = []
    old_hook = threading.excepthook
    threading.excepthook = lambda a: errors.append(a.exc_type.__name__)

    class FastThreading:
        def Timer(self, interval, fn, *a, **k):
            return threading.Timer(0.002, fn, *a, **k)

        def __getattr__(self, n):
            return getattr(threading, n)

    mtask.threading = FastThreading()
    try:
        for r in range(job["rounds"]):
            ext = ["json", "pickle"][r % 2]
            path = os.path.join(tmp, f"s{r}.{ext}")
            gw = BaseSyncGateway(RecT(), persistence=True, persistence_file=path, protocol_version=VERSION)
            n_exc0 = len(SAVE_EXC)
            gw.start_persistence()
            t0 = time.time()
            n = 0
            while time.time() - t0 < 0.25:
                n += 1
                nid = 1 + n % 250
                gw.logic(f"{nid};255;0;0;17;2.2")
                gw.logic(f"{nid};{n % 5};0;0;6;c")
                gw.logic(f"{nid};{n % 5};1;0;0;{n}")
            time.sleep(0.01)
            armed = gw.tasks._cancel_save is not None
            alive_timers = [t for t in threading.enumerate() if isinstance(t, threading.Timer) and t.is_alive()]
            res.evals += 1
            res.count("stress_rounds")
            res.count("stress_messages", 3 * n)
            if len(SAVE_EXC) > n_exc0:
                res.count("stress_rounds_with_real_concurrent_failure")
                res.add_set("stress_errors", type(SAVE_EXC[-1]).__name__)
            if errors:
                if not alive_timers:
                    res.violation("schedule-stopped:sync:real-threads", f"real timer thread died with {errors[:2]} while the network changed and no further save is armed", {"kind": "stress", "round": r, "ext": ext})
            del errors[:]
            try:
                gw.stop()
            except Exception as exc:
                res.notes.append(f"stress stop raised {exc!r}")
            time.sleep(0.01)
            res.nontrivial(("stress", r))
    finally:
        mtask.threading = FAKE_THREADING
        threading.excepthook = old_hook
        shutil.rmtree(tmp, ignore_errors=True)
    res.sample({"kind": "stress", "rounds": job["rounds"]})


def run(job):
    res = Result()
    install_save_recorder()
    {"oserror": run_oserror, "concurrent": run_concurrent, "stress": run_stress, "unwritable": run_unwritable}[job["kind"]](job, res)
    return res


def replay(case):
    res = Result()
    if case["kind"] == "oserror":
        r = run({"kind": "oserror", "flavour": case["flavour"], "ext": case["ext"], "seed": 0})
    elif case["kind"] == "unwritable":
        r = run({"kind": "unwritable", "flavour": case["flavour"], "seed": 0})
    elif case["kind"] == "concurrent":
        r = run({"kind": "concurrent", "flavour": case["flavour"], "ext": case["ext"], "mut": case["mut"], "seed": 0, "nodes": case.get("nodes", 3)})
    else:
        r = run({"kind": "stress", "seed": 0, "rounds": 10})
    for v in r.violations:
        res.violation(v["sig"], v["what"], v["case"])
    return res


def finish(agg, tier):
    c = agg["counters"]
    return {
        "rule": "(in one variant per fault point a complete but older state lies beside the good file as <file>.bak, as an earlier interrupted save "
                "leaves it: after the failed save the file must still load to the saved, the pre-save or the current state) "
                "scenario: start, state, clean tick, change, FAULTY tick, change, clean tick, change, stop - on the real threaded timer "
                "chain (captured Timer) and the real asyncio save loop (virtual-time loop), json and pickle. Faults: (i) EIO / ENOSPC "
                "from every non-write file operation and every 7th write of the scheduled save; (ii) at every write point of the JSON "
                "encoder / every write and Sensor.__getstate__ of the pickle save, a concurrent message that adds a node, a child, a "
                "value, or updates a value. After a save that failed: previous file still loads completely, state not marked saved, a "
                "further attempt is armed, the next clean tick persists the current state, stop() works and saves - also in the 'quiet' "
                "variants where no further message arrives after the failed save (next tick / direct stop must still persist). A free-running "
                "stress round (real timer thread, ms period) cross-checks that concurrent failures occur for real. distinct = "
                "(flavour, format, fault kind, position, mutation).",
        "floors": [("stale_backup_variants", c.get("stale_backup_variants", 0), 20), ("faulty_ticks", c.get("faulty_ticks", 0), 1500), ("failed_saves", c.get("failed_saves", 0), 300),
                   ("healing_ticks_judged", c.get("healing_ticks_judged", 0), 300), ("stops_judged", c.get("stops_judged", 0), 1000),
                   ("quiet_variants", c.get("quiet_variants", 0), 200), ("unwritable_ticks", c.get("unwritable_ticks", 0), 30)],
        "assumptions": ["concurrent mutation is produced synchronously at write points: a deterministic stand-in for the poll thread "
                        "running while the timer thread (or executor) serialises",
                        "a save that completes while a concurrent update slipped in is outside the statement (not judged)"],
        "show": ["faulty_ticks", "faults_fired", "failed_saves", "healing_ticks_judged", "stops_judged", "stress_rounds", "stress_rounds_with_real_concurrent_failure"],
    }
