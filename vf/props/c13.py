"""C13 - start-up survives damaged persistence files."""
import os
import shutil
import tempfile

from .. import core
from ..core import Result

ID = "C13"
LEVEL = "fault_enumeration"


def jobs(tier, seed):
    q = tier == "quick"
    out = []
    for ext in ("json", "pickle"):
        for size in ("small", "medium") + (() if q else ("large",)):
            for bak in ("absent", "intact", "empty", "truncated", "zero"):
                out.append({"ext": ext, "size": size, "bak": bak, "seed": seed, "stride": 1 if (size == "small" or not q) else 3})
    return out


def make_states(version="2.2"):
    """Two different good states (main A, backup B) per size."""
    from ..drive import Engine

    def build(nn, tag):
        eng = Engine("async", version)
        for n in range(1, nn + 1):
            eng.feed(f"{n};255;0;0;17;{version}")
            eng.feed(f"{n};255;3;0;11;{tag}-sketch-é中-{n}")
            eng.feed(f"{n};255;3;0;0;{(n * 7) % 101}")
            for c in range(0, 1 + n % 3):
                eng.feed(f"{n};{c};0;0;6;{tag} child {c}")
                eng.feed(f"{n};{c};1;0;0;{20 + c}.5")
        return eng
    return build


def file_bytes(eng, ext, tmp):
    from mysensors.persistence import Persistence

    path = os.path.join(tmp, f"mk{os.getpid()}.{ext}")
    Persistence(eng.gw.sensors, lambda save: (lambda: None), persistence_file=path).save_sensors()
    with open(path, "rb") as fh:
        data = fh.read()
    os.remove(path)
    return data


def damaged_variants(data, kind):
    if kind == "empty":
        return b""
    if kind == "truncated":
        return data[: len(data) // 2]
    if kind == "zero":
        return b"\x00" * len(data)
    raise AssertionError(kind)


def load(path, how, version="2.2"):
    """Returns (projection, exception). how: 'direct' | 'sync' | 'async'."""
    from ..drive import projection

    if how == "direct":
        from mysensors.persistence import Persistence

        sensors = {}
        p = Persistence(sensors, lambda save: (lambda: None), persistence_file=path)
        try:
            p.safe_load_sensors()
        except Exception as exc:
            return None, exc
        return projection(sensors), None
    from ..persist import PGateway

    pg = PGateway(how, version, path)
    try:
        pg.start()
    except Exception as exc:
        pg.close()
        return None, exc
    got = projection(pg.gw.sensors)
    try:
        pg.stop()
    except Exception:
        pass
    pg.close()
    return got, None


def run(job):
    from ..drive import projection, strict

    res = Result()
    ext, size, bakkind = job["ext"], job["size"], job["bak"]
    nn = {"small": 1, "medium": 5, "large": 40}[size]
    tmp = tempfile.mkdtemp(prefix="vf-c13-")
    try:
        build = make_states()
        ea, eb = build(nn, "A"), build(nn + 1, "B")
        A, B = projection(ea.gw.sensors), projection(eb.gw.sensors)
        da, db = file_bytes(ea, ext, tmp), file_bytes(eb, ext, tmp)
        sA, sB, sE = strict(A), strict(B), strict({})
        path = os.path.join(tmp, f"net.{ext}")
        bak = path + ".bak"
        link = tmp + "-link"
        os.symlink(tmp, link)
        variants = [("intact", None, da), ("missing", None, None), ("empty", 0, b""), ("zero", len(da), b"\x00" * len(da)),
                    ("zero4096", None, b"\x00" * ((len(da) + 4095) // 4096 * 4096))]
        for k in range(1, len(da), job["stride"]):
            variants.append(("truncated", k, da[:k]))
        if bakkind == "absent":
            bdata = None
        elif bakkind == "intact":
            bdata = db
        else:
            bdata = damaged_variants(db, bakkind)
        # the five special variants (intact, missing, empty, zero-filled) are loaded in every way: directly through
        # Persistence and through the start_persistence() of a threaded and of an asyncio gateway
        runs = [(v, how) for v in variants[:5] for how in ("direct", "sync", "async")] + [(v, None) for v in variants[5:]]
        for i, ((kind, off, mdata), forced_how) in enumerate(runs):
            for f in (path, bak):
                if os.path.exists(f):
                    os.remove(f)
            if mdata is not None:
                with open(path, "wb") as fh:
                    fh.write(mdata)
            if bdata is not None:
                with open(bak, "wb") as fh:
                    fh.write(bdata)
            how = forced_how or ("direct" if i % 40 else ["sync", "async"][(i // 40) % 2])
            # the configured path may be spelled in any way that names the file: absolute, relative to the working
            # directory (the library's default file name is relative), or through a symlinked directory
            style = ("absolute", "relative", "symlinked-dir")[(i + job.get("seed", 0)) % 3]
            cwd = os.getcwd()
            try:
                if style == "relative":
                    os.chdir(tmp)
                    cfg_path = os.path.basename(path)
                elif style == "symlinked-dir":
                    cfg_path = os.path.join(link, os.path.basename(path))
                else:
                    cfg_path = path
                got, exc = load(cfg_path, how)
            finally:
                os.chdir(cwd)
            res.count(f"path_style:{style}")
            res.evals += 1
            res.count("loads")
            res.count(f"loads_via_{'gateway' if how != 'direct' else 'persistence'}")
            res.nontrivial((ext, size, kind, off, bakkind))
            case = {"ext": ext, "size": size, "main": kind, "offset": off, "bak": bakkind, "how": how, "path_style": style}
            if exc is not None:
                res.violation(f"load-raises:{ext}:{type(exc).__name__}",
                              f"loading raised {type(exc).__name__}: {exc} (main {kind}@{off}, backup {bakkind}, {ext}, {style} path)", case)
                continue
            sg = strict(got)
            if kind == "intact":
                want, name = sA, "main"
            elif bakkind == "intact":
                want, name = sB, "backup"
            else:
                want, name = sE, "empty"
            if sg != want:
                which = "main" if sg == sA else "backup" if sg == sB else "empty" if sg == sE else "partial-or-mixed"
                res.violation(f"wrong-state:{ext}:got={which}:want={name}:main={kind if kind in ("intact", "missing") else "damaged"}:bak={bakkind}",
                              f"main {kind}@{off}, backup {bakkind}, {style} path: loaded the {which} state, expected the {name} state", case)
            if kind != "intact":
                res.count("damaged_main_loads")
        res.sample({"ext": ext, "size": size, "backup": bakkind, "main_len": len(da), "variants": len(variants),
                    "example": ["truncated", len(da) // 3]})
    finally:
        shutil.rmtree(tmp, ignore_errors=True)
        try:
            os.unlink(tmp + "-link")
        except OSError:
            pass
    return res


def replay(case):
    res = Result()
    job = {"ext": case["ext"], "size": case["size"], "bak": case["bak"], "seed": 0, "stride": 1}
    r = run(job)
    for v in r.violations:
        res.violation(v["sig"], v["what"], v["case"])
    return res


def finish(agg, tier):
    c = agg["counters"]
    return {
        "rule": "for 2-3 base states x {json, pickle}: main file in {intact, missing, empty, every truncation length 1..len-1, "
                "zero-filled (same length, rounded up to 4096)} x backup in {absent, intact (a different good state), empty, "
                "truncated, zero-filled}; loaded through Persistence.safe_load_sensors and, for a sample, through a fresh threaded / "
                "asyncio gateway's start_persistence(); the configured path is absolute, relative to the working directory or through a symlinked directory in turn. Oracle: no exception; result is the main state iff main is intact, else the "
                "backup's state iff the backup is intact, else empty - never anything else. distinct = (format, size, damage kind, "
                "offset, backup kind).",
        "exhaustive": True,
        "floors": [("damaged_main_loads", c.get("damaged_main_loads", 0), 5000), ("loads_via_gateway", c.get("loads_via_gateway", 0), 100),
                   ("path_style:relative", c.get("path_style:relative", 0), 1500), ("path_style:symlinked-dir", c.get("path_style:symlinked-dir", 0), 1500)],
        "assumptions": ["only the damage the statement names is generated (no bit flips: a flipped digit is a well-formed file)",
                        "exhaustive = every truncation offset of the small (and, in the thorough tier, every) base file"],
        "show": ["loads", "damaged_main_loads", "loads_via_gateway"],
    }
