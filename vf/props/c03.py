"""C03 - inbound validation conforms to the per-version serial API.

Oracle: vf.spec (independent tables + rules) versus Message(line).validate(v),
ChildSensor.validate, and the effect of Gateway.logic.
"""
import random

from .. import core, spec
from ..core import Result

ID = "C03"
LEVEL = "exploration"
TIMEOUT = {"quick": 900, "thorough": 3600}

NODE_CLASS = [-1, 0, 1, 254, 255, 256]
CHILD_CLASS = [-1, 0, 1, 254, 255, 256]
ACKS = [-1, 0, 1, 2]
TYPES = [-1, 0, 1, 2, 3, 4, 5]


def maxsub(version, typ):
    return {0: spec.MAX_PRES, 1: spec.MAX_SET, 2: spec.MAX_SET, 3: spec.MAX_INT,
            4: spec.MAX_STREAM}.get(typ, {v: 3 for v in spec.VERSIONS})[version]


def jobs(tier, seed):
    out = []
    for v in spec.VERSIONS:
        for t in TYPES:
            out.append({"kind": "headers", "version": v, "type": t})
        out.append({"kind": "corpus", "version": v})
        out.append({"kind": "child", "version": v})
        out.append({"kind": "effect", "version": v, "seed": seed})
        nrand = 4 if tier == "thorough" else 1
        for i in range(nrand):
            out.append({"kind": "random", "version": v, "seed": seed, "i": i,
                        "n": 40000 if tier == "thorough" else 6000})
    out.append({"kind": "monotone"})
    for i in range(2 if tier == "quick" else 8):
        out.append({"kind": "threads", "seed": seed, "i": i})
    return out


def lib_validate(line, version):
    """'ok' | 'invalid' | 'malformed' | ('exc', exception)."""
    import voluptuous as vol
    from mysensors.message import Message

    try:
        msg = Message(line)
    except ValueError:
        return "malformed"
    try:
        msg.validate(version)
    except vol.Invalid:
        return "invalid"
    except Exception as exc:  # anything else is an internal error
        return ("exc", exc)
    return "ok"


def clause(version, n, c, t, a, s, p):
    """Name of the first C03 clause the spec rejects on."""
    if t not in (0, 1, 2, 3, 4):
        return "type-undefined"
    if not 0 <= n <= 255:
        return "node-range"
    if a not in (0, 1):
        return "ack"
    if spec.rule_for(version, t, s) is None:
        return "subtype-undefined"
    if not 0 <= c <= 255:
        return "child-range" + ("-idreq" if t == 3 and s in (3, 4) else "")
    if t in (1, 2) and c == 255:
        return "child-255-setreq"
    if t in (3, 4) and c != 255 and not (t == 3 and s in (3, 4)):
        return "child-must-be-255"
    return "payload"


def judge(res, version, n, c, t, a, s, p, phase):
    line = f"{n};{c};{t};{a};{s};{p}"
    lib = lib_validate(line, version)
    want = spec.accepts(version, n, c, t, a, s, p)
    res.evals += 1
    case = {"version": version, "line": line, "phase": phase}
    if isinstance(lib, tuple):
        res.violation(f"validate-raises:{core.exc_sig(lib[1])}:t={t}",
                      f"validate() raised {type(lib[1]).__name__} instead of vol.Invalid for {line!r} ({version})", case)
        return
    if lib == "malformed":
        res.count("malformed")
        if want is True:
            res.violation(f"decode-rejects:t={t}:s={s}", f"well-formed line {line!r} does not decode", case)
        return
    got = lib == "ok"
    if want is None:
        res.count("undecided_executed")
        res.add_set("undecided", f"{spec.rule_for(version, t, s)}|{p}|{'accept' if got else 'reject'}")
        return
    res.count("decided_judged")
    res.nontrivial((version, n, c, t, a, s, p))
    if got != want:
        cl = clause(version, n, c, t, a, s, p)
        rule = spec.rule_for(version, t, s)
        what = (f"lib {'accepts' if got else 'rejects'} but serial API {'accepts' if want else 'rejects'} "
                f"{line!r} in {version} (clause {cl}, rule {rule})")
        res.violation(f"verdict:lib={'accept' if got else 'reject'}:{cl}:t={t}:s={s if cl in ('payload', 'subtype-undefined') or 'idreq' in cl else '*'}",
                      what, case)


def run_headers(job, res):
    v, t = job["version"], job["type"]
    top = maxsub(v, t) + 2
    for s in range(-1, top + 1):
        rule = spec.rule_for(v, t, s)
        p = spec.minimal_ok(rule) if rule is not None else ""
        for n in NODE_CLASS:
            for c in CHILD_CLASS:
                for a in ACKS:
                    judge(res, v, n, c, t, a, s, p, "headers")
    res.count("header_product_cells", (top + 2) * len(NODE_CLASS) * len(CHILD_CLASS) * len(ACKS))
    res.sample({"phase": "headers", "version": v, "type": t, "subtypes": [-1, top],
                "nodes": NODE_CLASS, "children": CHILD_CLASS, "acks": ACKS})


def run_corpus(job, res):
    v = job["version"]
    for t in range(5):
        for s in range(0, maxsub(v, t) + 1):
            rule = spec.rule_for(v, t, s)
            c = 255 if t in (3, 4) else 1
            for p, _exp in spec.corpus(rule):
                judge(res, v, 1, c, t, 0, s, p, "corpus")
                res.count("corpus_cases")
    res.sample({"phase": "corpus", "version": v, "example": f"1;1;1;0;3;{spec.corpus('PERCENT_INT')[4][0]}"})


def run_child(job, res):
    """Every presentation type has a child-value schema that validates without internal error."""
    import voluptuous as vol
    from mysensors.sensor import ChildSensor

    v = job["version"]
    for ptype in range(0, spec.MAX_PRES[v] + 1):
        for vt in list(range(0, spec.MAX_SET[v] + 2)) + [None]:
            rule = spec.rule_for(v, 1, vt) if vt is not None else None
            payloads = [p for p, _ in spec.corpus(rule)][:6] if rule else [""]
            for p in payloads:
                values = {} if vt is None else {vt: p}
                res.evals += 1
                res.count("child_schema_calls")
                try:
                    ChildSensor(0, ptype, "d").validate(v, values)
                    res.add_set("child_ok", (v, ptype, vt))
                except vol.Invalid:
                    res.count("child_schema_invalid")
                except Exception as exc:
                    res.violation(f"child-schema-raises:{core.exc_sig(exc)}",
                                  f"ChildSensor(0,{ptype}).validate({v!r}, {values!r}) raised {type(exc).__name__}: {exc}",
                                  {"version": v, "ptype": ptype, "values": {str(k): x for k, x in values.items()}, "phase": "child"})
        res.nontrivial(("child", v, ptype))
        # a presentation type must at least accept an empty value set
        try:
            ChildSensor(0, ptype, "d").validate(v, {})
        except Exception as exc:
            res.violation(f"child-schema-empty:{type(exc).__name__}",
                          f"presentation type {ptype} ({v}) has no usable child-value schema: {exc!r}",
                          {"version": v, "ptype": ptype, "values": {}, "phase": "child"})
    res.sample({"phase": "child", "version": v, "presentation_types": [0, spec.MAX_PRES[v]]})


def run_effect(job, res):
    """validate() verdict agrees with the effect of Gateway.logic on a prepared gateway."""
    from ..drive import Engine, snapshot

    v = job["version"]
    rng = core.rng_for("c03-effect", job["seed"], v)
    cases = []
    for s in range(0, spec.MAX_SET[v] + 3):
        rule = spec.rule_for(v, 1, s)
        for p, exp in (spec.corpus(rule) if rule else [("1", False)]):
            cases.append((1, 1, 1, 0, s, p, exp))
    for s in range(0, spec.MAX_INT[v] + 3):
        rule = spec.rule_for(v, 3, s)
        if s == 0:
            for p, exp in spec.corpus("PERCENT_INT"):
                cases.append((1, 255, 3, 0, 0, p, exp))
    rng.shuffle(cases)
    NODE_VERSIONS = [v, "1.4", "2.2.0", "1.5", "2.3", "2.0", "2.1.1", v]
    for k, (n, c, t, a, s, p, exp) in enumerate(cases):
        if exp is None:
            continue
        eng = Engine("async", v)
        # the node may have presented any version: acceptance depends on the gateway's version only
        nv = NODE_VERSIONS[k % len(NODE_VERSIONS)]
        res.count("effect_cases_node_version_differs", int(nv != v))
        eng.feed(f"1;255;0;0;17;{nv}\n")
        eng.feed("1;1;0;0;23;custom\n")   # S_CUSTOM child
        before = snapshot(eng.gw)
        ncb = len(eng.cbs)
        line = f"{n};{c};{t};{a};{s};{p}\n"
        try:
            eng.feed(line)
        except Exception as exc:
            res.violation(f"effect-raises:{core.exc_sig(exc.__cause__ or exc)}",
                          f"logic({line!r}) raised", {"version": v, "line": line, "phase": "effect", "node_version": nv})
            continue
        after = snapshot(eng.gw)
        changed = before != after or len(eng.cbs) != ncb or eng.sent_in_step(eng.step)
        res.evals += 1
        res.count("effect_cases")
        if exp and not changed:
            res.violation(f"effect:accepted-but-no-effect:t={t}:s={s}",
                          f"{line!r} is valid in {v} but logic() had no effect (node presented {nv})", {"version": v, "line": line, "phase": "effect", "node_version": nv})
        if not exp and changed:
            res.violation(f"effect:rejected-but-effect:t={t}:s={s}",
                          f"{line!r} is invalid in {v} but logic() had an effect (node presented {nv})", {"version": v, "line": line, "phase": "effect", "node_version": nv})
        res.nontrivial(("effect", v, t, s, p))
    res.sample({"phase": "effect", "version": v, "prepared": ["1;255;0;0;17;" + v, "1;1;0;0;23;custom"],
                "example": "1;1;1;0;3;101"})


UNICODE_POOL = ["", " ", "0", "1", "-", "+", ".", ",", "e", "x", "f", "A", "é", "٣", "中", "\U0001f600",
                "\x00", "\t", "_", "nan", "inf", "1e5", "0x10", "١٢"]


def rand_payload(rng):
    k = rng.random()
    if k < 0.3:
        return str(rng.randint(-300, 70000))
    if k < 0.45:
        return f"{rng.uniform(-200, 200):.{rng.randint(0, 4)}f}"
    if k < 0.6:
        return "".join(rng.choice("0123456789abcdefABCDEFg") for _ in range(rng.choice([5, 6, 7, 8, 9, 20, 12])))
    if k < 0.66:
        # hex-looking strings of the right length with blanks / separators inside (never trailing)
        n = rng.choice([6, 8])
        body = [rng.choice("0123456789abcdefABCDEF") for _ in range(n)]
        for _ in range(rng.randint(1, 3)):
            body[rng.randrange(n - 1)] = rng.choice([" ", "\t", "_", ":", "-", "+", "x", "\x0b"])
        return "".join(body)
    if k < 0.7:
        return ",".join(rand_payload_simple(rng) for _ in range(rng.randint(1, 4)))
    return "".join(rng.choice(UNICODE_POOL) for _ in range(rng.randint(0, 6))).rstrip().replace(";", "")


def rand_payload_simple(rng):
    return rng.choice(["1", "2.5", "-3", "x", "", "1e2", " 4"])


def run_random(job, res):
    v = job["version"]
    rng = core.rng_for("c03-rand", job["seed"], v, job["i"])
    for _ in range(job["n"]):
        t = rng.choice([0, 1, 1, 1, 2, 3, 3, 4])
        s = rng.randint(0, maxsub(v, t))
        c = 255 if t in (3, 4) else rng.choice([0, 1, 254])
        p = rand_payload(rng)
        if p != p.rstrip() or ";" in p or "\n" in p or "\r" in p:
            p = p.strip().replace(";", "").replace("\n", "").replace("\r", "")
        judge(res, v, rng.choice([0, 1, 254, 255]), c, t, rng.choice([0, 1]), s, p, "random")
    res.count("random_payload_cases", job["n"])


def run_threads(job, res):
    """The verdict is a function of (line, version): it must not depend on what another thread validates at the same
    time (two gateways in one process; the application thread sending a command while the poll thread handles a line)."""
    import sys
    import threading

    rng = core.rng_for("c03-threads", job["seed"], job["i"])
    cases = []
    for v in spec.VERSIONS:
        for t in (0, 1, 2, 3):
            for s_ in range(0, maxsub(v, t) + 1, 1 if t == 1 else 3):
                rule = spec.rule_for(v, t, s_)
                for p, exp in (spec.corpus(rule) if rule else [("1", False)])[:6]:
                    c = 255 if t in (0, 3) else 1
                    cases.append((f"1;{c};{t};0;{s_};{p}", v))
    rng.shuffle(cases)
    cases = cases[:1500]
    # the same few rules again and again from all threads at once (rules built from composite validators that the const
    # tables share between all schemas: config, battery level, percentages, binary values)
    hot = [(f"1;255;3;0;6;{p}", v) for v in spec.VERSIONS for p in ("I", "M")] + [("1;255;3;0;0;55", v) for v in spec.VERSIONS] \
        + [("1;1;1;0;2;1", v) for v in spec.VERSIONS] + [("1;1;1;0;3;50", v) for v in spec.VERSIONS]
    # ... and lines those same rules must refuse: a check that is skipped while another thread is rebuilding the shared
    # rule shows as an invalid line accepted
    hot += [(f"1;255;3;0;0;{p}", v) for v in spec.VERSIONS for p in ("250", "-5")] + [("1;1;1;0;3;250", v) for v in spec.VERSIONS] \
        + [("1;1;1;0;2;2", v) for v in spec.VERSIONS] + [("1;255;3;0;6;X", v) for v in spec.VERSIONS]
    cases += hot * 25
    rng.shuffle(cases)
    base = {}
    for line, v in cases:
        r = lib_validate(line, v)
        base[(line, v)] = r if isinstance(r, str) else "exc"
    diffs = []
    counts = [0, 0]

    def worker(k, order):
        for _ in range(3):
            for line, v in order:
                r = lib_validate(line, v)
                r = r if isinstance(r, str) else "exc"
                counts[k] += 1
                if r != base[(line, v)]:
                    diffs.append((line, v, base[(line, v)], r))

    old = sys.getswitchinterval()
    sys.setswitchinterval(1e-6)
    counts.append(0)
    try:
        third = cases[len(cases) // 2:] + cases[:len(cases) // 2]
        ts = [threading.Thread(target=worker, args=(0, cases)), threading.Thread(target=worker, args=(1, list(reversed(cases)))),
              threading.Thread(target=worker, args=(2, third))]
        for t in ts:
            t.start()
        for t in ts:
            t.join(600)
    finally:
        sys.setswitchinterval(old)
    res.evals += sum(counts)
    res.count("concurrent_validations", sum(counts))
    for line, v, was, now in diffs[:5]:
        res.violation(f"verdict-depends-on-concurrent-validation:{was}->{now}",
                      f"{line!r} ({v}) is {was} when validated alone and {now} while another thread validates other lines", {"version": v, "line": line, "phase": "threads"})
    res.nontrivial(("threads", job["i"]))


def run_monotone(job, res):
    """Sub-types defined in version v stay defined in every later version."""
    prev = None
    for v in spec.VERSIONS:
        cur = set()
        for t in range(5):
            for s in range(0, 70):
                rule = spec.rule_for(v, t, s)
                # the lib's own notion of 'defined': some corpus payload is accepted
                probes = [p for p, e in spec.corpus(rule)] if rule else ["", "1", "x"]
                c = 255 if t in (3, 4) else 1
                if any(lib_validate(f"1;{c};{t};0;{s};{p}", v) == "ok" for p in probes):
                    cur.add((t, s))
                res.evals += 1
        if prev is not None:
            for (t, s) in sorted(prev - cur):
                res.violation(f"monotone:dropped:t={t}:s={s}:in={v}",
                              f"sub-type {s} of command {t} is accepted before {v} but not in {v}",
                              {"phase": "monotone", "version": v, "type": t, "sub": s})
        res.add_set("defined_counts", (v, len(cur)))
        res.nontrivial(("monotone", v, len(cur)))
        prev = cur
    res.sample({"phase": "monotone", "versions": spec.VERSIONS})


def run(job):
    res = Result()
    from mysensors.const import get_const

    for v in reversed(spec.VERSIONS):      # later tables first: they must not alter the earlier ones
        get_const(v)
    for v in spec.VERSIONS:
        get_const(v)
    {"headers": run_headers, "corpus": run_corpus, "child": run_child, "effect": run_effect,
     "random": run_random, "monotone": run_monotone, "threads": run_threads}[job["kind"]](job, res)
    return res


def replay(case):
    res = Result()
    ph = case.get("phase")
    if ph in ("headers", "corpus", "random"):
        n, c, t, a, s, p = case["line"].split(";", 5)
        judge(res, case["version"], int(n), int(c), int(t), int(a), int(s), p, ph)
    elif ph == "child":
        run_child({"version": case["version"]}, res)
    elif ph == "effect":
        run_effect({"version": case["version"], "seed": 0}, res)
    elif ph == "threads":
        run_threads({"seed": 0, "i": 0}, res)
    else:
        run_monotone({}, res)
    return res


def finish(agg, tier):
    c = agg["counters"]
    return {
        "rule": "header product (5 versions x command -1..5 x sub-type -1..max+2 x node/child class x ack) enumerated "
                "completely with the minimal payload of each rule; every defined (version, command, sub-type) crossed with "
                "the decided corpus of its rule; child schemas of every presentation type; effect agreement on a prepared "
                "gateway; random payloads. A case is non-trivial when both the spec and the library verdict were computed "
                "for a payload whose verdict the statement fixes; distinct = distinct (version, header, payload) tuples.",
        "exhaustive": True,
        "floors": [("decided_judged", c.get("decided_judged", 0), 100000),
                   ("corpus_cases", c.get("corpus_cases", 0), 3000),
                   ("child_schema_calls", c.get("child_schema_calls", 0), 5000),
                   ("effect_cases", c.get("effect_cases", 0), 500),
                   ("concurrent_validations", c.get("concurrent_validations", 0), 10000)],
        "assumptions": ["vf/spec.py encodes the published serial API for 1.4-2.2; payload spellings the statement does "
                        "not fix (signs, blanks, exponents, case variants) are executed but not judged",
                        "exhaustive refers to the header product only"],
        "show": ["decided_judged", "undecided_executed", "corpus_cases", "child_schema_calls", "effect_cases", "concurrent_validations"],
    }
