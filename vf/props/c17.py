"""C17 - MQTT topics and commands map one-to-one."""
import itertools
import os
import shutil
import tempfile

from .. import core, gen
from ..core import Result

ID = "C17"
LEVEL = "exploration"
LEVELS = ["a", "1", "24", "-", ""]
SPECIAL_PREFIXES = ["1/2/1/0/24", "x/1/2/1/0/24", "a/1/", "/", "//", "mysensors-in", "home/gw-1/in", "0", "255/255/3/0/6",
                    "a/1/2/3/0/4", "+", "a b", "é", "1/2/3/4/5/6/7"]


def all_prefixes():
    out = []
    for n in range(0, 4):
        for combo in itertools.product(LEVELS, repeat=n):
            out.append("/".join(combo))
    return sorted(set(out + SPECIAL_PREFIXES))


def jobs(tier, seed):
    q = tier == "quick"
    P = all_prefixes()
    n = 16 if q else 48
    out = [{"kind": "accept", "prefixes": P[i::n], "seed": seed, "i": i, "rand": 200 if q else 1500} for i in range(n)]
    out += [{"kind": "roundtrip", "prefixes": P[i::8], "seed": seed, "i": i, "n": 400 if q else 4000} for i in range(8)]
    out += [{"kind": "subs", "seed": seed, "i": i, "n": 25 if q else 200} for i in range(8)]
    out += [{"kind": "robust", "seed": seed, "i": i, "n": 20 if q else 150} for i in range(4)]
    return out


def mk(flavour, in_prefix, out_prefix, version="2.2", **kw):
    from ..drive import Engine

    return Engine(flavour, version, mqtt=True, in_prefix=in_prefix, out_prefix=out_prefix, **kw)


def oracle_accepts(prefix, topic):
    """A topic is accepted exactly when it is the in-prefix followed by five levels."""
    head = prefix + "/"
    if not topic.startswith(head):
        return False
    return topic[len(head):].count("/") == 4


def received(eng, topic, payload, qos):
    """Feed a topic; returns ('raised', exc) | ('dropped',) | ('line', data)."""
    from ..drive import PumpDied

    n0 = len(eng.logic_in)
    eng.step += 1
    try:
        eng.gw.tasks.transport.recv(topic, payload, qos)
        eng.drain()
    except PumpDied:
        return ("raised", eng.pump_exc)
    except Exception as exc:
        return ("raised", exc)
    if len(eng.logic_in) == n0:
        return ("dropped",)
    return ("line", eng.logic_in[-1][1])


def candidate_topics(rng, prefix, nrand):
    T = set()
    for lv in (["1", "2", "1", "0", "24"], ["0", "255", "3", "0", "2"], ["a", "b", "c", "d", "e"], ["", "", "", "", ""], ["255", "255", "4", "1", "0"]):
        T.add(prefix + "/" + "/".join(lv))
        T.add(prefix + "/" + "/".join(lv[:4]))
        T.add(prefix + "/" + "/".join(lv + ["9"]))
        T.add(prefix + "/".join(lv))
        T.add("/".join(lv))
        T.add("x" + prefix + "/" + "/".join(lv))
        T.add(prefix + "x/" + "/".join(lv))
        T.add(prefix + "//" + "/".join(lv))
        if "/" in prefix:
            T.add(prefix.split("/", 1)[1] + "/" + "/".join(lv))
            T.add(prefix.rsplit("/", 1)[0] + "/" + "/".join(lv))
    for k in range(0, 9):
        T.add("/".join(rng.choice(["1", "2", "a", "", "24", "0", "255"]) for _ in range(k)))
        T.add(prefix + "/" + "/".join(rng.choice(["1", "2", "a", "", "24"]) for _ in range(k)))
    for _ in range(nrand):
        k = rng.randint(0, 8)
        base = rng.choice([prefix, prefix, prefix[:-1] if prefix else "", prefix + "1", ""])
        T.add(base + rng.choice(["/", "", "//"]) + "/".join(rng.choice(["1", "2", "a", "", "24", "0", "-", "é"]) for _ in range(k)))
    T.update(["", "/", prefix, prefix + "/"])
    return sorted(T)


def run_accept(job, res):
    rng = core.rng_for(ID, "accept", job["seed"], job["i"])
    for pi, prefix in enumerate(job["prefixes"]):
        flavour = ["sync", "async"][pi % 2]
        eng = mk(flavour, prefix, "out")
        for topic in candidate_topics(rng, prefix, job["rand"]):
            want = oracle_accepts(prefix, topic)
            qos = rng.choice([0, 1, 2])
            got = received(eng, topic, "1", qos)
            if want and got[0] == "line":
                # acceptance is a function of the topic alone: the same message again (a switch pressed twice, a command
                # repeated) is accepted again, whatever was delivered before and with whatever qos
                again = received(eng, topic, "1", qos)
                res.count("repeated_deliveries")
                if again[0] != "line":
                    res.violation(f"acceptance:repeat-{'raises' if again[0] == 'raised' else 'dropped'}:qos={min(qos, 1)}",
                                  f"in_prefix {prefix!r}: topic {topic!r} (qos {qos}) delivered a second time was {again[0]}",
                                  {"kind": "accept", "in_prefix": prefix, "topic": topic, "flavour": flavour})
            res.evals += 1
            case = {"kind": "accept", "in_prefix": prefix, "topic": topic, "flavour": flavour}
            shape = ("empty" if prefix == "" else "looks-like-levels" if any(ch.isdigit() for ch in prefix) else "plain",
                     prefix.count("/"), prefix.endswith("/"))
            if got[0] == "raised":
                res.violation(f"recv-raises:{core.exc_sig(got[1])}", f"recv({topic!r}) with in_prefix {prefix!r} raised {type(got[1]).__name__}: {got[1]}", case)
                eng = mk(flavour, prefix, "out")
                continue
            acc = got[0] == "line"
            res.count("topics_judged")
            res.count("topics_accepted" if acc else "topics_rejected")
            if prefix or topic.count("/") != 5:
                res.nontrivial((shape, topic.count("/") - prefix.count("/"), want))
            if acc != want:
                res.violation(f"acceptance:{'accepts-foreign' if acc else 'rejects-own'}:prefix-{shape[0]}",
                              f"in_prefix {prefix!r}: topic {topic!r} was {'accepted' if acc else 'rejected'}, should be {'accepted' if want else 'rejected'}", case)
            elif acc:
                lv = topic[len(prefix) + 1:].split("/")
                data = got[1]
                parts = data.split(";", 5)
                if len(parts) != 6 or parts[:3] != lv[:3] or parts[4] != lv[4] or parts[5] != "1":
                    res.violation("acceptance:wrong-line", f"in_prefix {prefix!r}: topic {topic!r} reached logic as {data!r}", case)
                elif parts[3] != ("1" if qos > 0 else "0"):
                    # the ack flag of a received command is 1 exactly when it was delivered with QoS > 0 (the fourth
                    # topic level is the sender's business)
                    res.violation(f"acceptance:ack-not-from-qos:qos={min(qos, 1)}:level={lv[3] if lv[3] in ('0', '1') else 'other'}",
                                  f"in_prefix {prefix!r}: topic {topic!r} delivered with qos {qos} reached logic as {data!r}", case)
        if pi == 0 and job["i"] == 0:
            res.sample({"kind": "accept", "in_prefix": prefix, "topics": candidate_topics(rng, prefix, 3)[:8]})


def run_roundtrip(job, res):
    rng = core.rng_for(ID, "rt", job["seed"], job["i"])
    prefixes = job["prefixes"]
    for k in range(job["n"]):
        P = rng.choice(prefixes)
        flavour = ["sync", "async"][k % 2]
        n = rng.choice([0, 1, 2, 127, 254, 255, rng.randint(0, 255)])
        c = rng.choice([0, 1, 254, 255, rng.randint(0, 255)])
        t = rng.randint(0, 4)
        a = rng.choice([0, 1])
        s = rng.choice([0, 1, 2, 24, 47, 56, 255, rng.randint(0, 60)])
        p, cat = gen.payload(rng)
        cmd = f"{n};{c};{t};{a};{s};{p}"
        A = mk(flavour, "whatever", P, retain=rng.choice([True, False]))
        B = mk(flavour, P, "other")
        A.step += 1
        res.evals += 1
        case = {"kind": "roundtrip", "prefix": P, "command": cmd, "flavour": flavour}
        try:
            A.gw.tasks.transport.send(cmd + "\n")
        except Exception as exc:
            res.violation(f"send-raises:{core.exc_sig(exc)}", f"send({cmd!r}) raised {type(exc).__name__}: {exc}", case)
            continue
        if len(A.pubs) != 1:
            res.violation(f"publish-count:{len(A.pubs)}", f"send({cmd!r}) published {len(A.pubs)} times", case)
            continue
        _st, topic, payload, qos, retain = A.pubs[0]
        if (qos > 0) != (a == 1):
            res.violation(f"qos-ack:ack={a}:qos={qos}", f"command {cmd!r} (ack {a}) published with qos {qos}", case)
        got = received(B, topic, payload, qos)
        if got[0] == "raised":
            res.violation(f"recv-raises:{core.exc_sig(got[1])}", f"receiving {topic!r} back raised {type(got[1]).__name__}", case)
            continue
        if got[0] != "line" or got[1].rstrip("\n") != cmd:
            res.violation(f"roundtrip-differs:{'dropped' if got[0] != 'line' else cat}",
                          f"prefix {P!r}: {cmd!r} -> ({topic!r}, {payload!r}, qos {qos}) -> {got[1] if got[0] == 'line' else None!r}", case)
        else:
            again = received(B, topic, payload, qos)
            if again[0] != "line" or again[1].rstrip("\n") != cmd:
                res.violation(f"roundtrip-differs:second-delivery-{'dropped' if again[0] != 'line' else cat}",
                              f"prefix {P!r}: {cmd!r} published twice, the second delivery (qos {qos}) gave {again[1] if again[0] == 'line' else again[0]!r}", case)
        res.count("roundtrips")
        if P or p:
            res.nontrivial(("rt", "empty" if P == "" else "digits" if any(ch.isdigit() for ch in P) else "plain", P.count("/"), t, a, cat))
        if k < 2 and job["i"] == 0:
            res.sample(dict(case, topic=topic, qos=qos))


def covers(sub, req):
    """MQTT filter `sub` covers every topic matching filter `req`."""
    s, r = sub.split("/"), req.split("/")
    for i, lv in enumerate(s):
        if lv == "#":
            return True
        if i >= len(r):
            return False
        if lv == "+":
            continue
        if lv != r[i]:
            return False
    return len(s) == len(r)


def required_topics(prefix, children):
    req = [f"{prefix}/+/+/0/+/+", f"{prefix}/+/+/3/+/+"]
    for (n, c) in sorted(children):
        req += [f"{prefix}/{n}/{c}/1/+/+", f"{prefix}/{n}/{c}/2/+/+", f"{prefix}/{n}/+/4/+/+"]
    return req


def check_cover(res, eng, prefix, children, case, when):
    subs = [t for (_s, t) in eng.subs]
    for r in required_topics(prefix, children):
        res.count("required_topics_checked")
        if not any(covers(s, r) for s in subs):
            kind = r[len(prefix):].split("/")[3]
            res.violation(f"subscription-missing:type={kind}:{when}", f"{when}: no subscription covers {r!r} (have {len(subs)} subscriptions)", case)
            return False
    return True


def run_subs(job, res):
    from mysensors.persistence import Persistence
    from ..drive import PumpDied

    rng = core.rng_for(ID, "subs", job["seed"], job["i"])
    tmp = tempfile.mkdtemp(prefix="vf-c17-")
    try:
        for h in range(job["n"]):
            prefix = rng.choice(["in", "", "a/b", "1/2", "gw-1", "gw-out/", "a//b/", "/", "1/", "x//y"])
            flavour = ["sync", "async"][h % 2]
            version = rng.choice(["2.0", "2.1", "2.2"])
            eng = mk(flavour, prefix, "out", version=version)
            steps = []
            # --- start (fresh, no persistence)
            start(eng)
            case = {"kind": "subs", "prefix": prefix, "flavour": flavour, "version": version, "steps": steps}
            res.evals += 1
            check_cover(res, eng, prefix, set(), case, "after-start")
            children = set()
            for _ in range(rng.randint(3, 25)):
                k = rng.random()
                n = rng.choice([1, 2, 3, 254])
                if k < 0.3:
                    line = f"{n};255;0;0;17;{version}"
                elif k < 0.8:
                    line = f"{n};{rng.choice([0, 1, 2, 254])};0;0;{rng.choice([0, 3, 6, 23])};d"
                else:
                    line = gen.valid_line(rng, version)
                steps.append(line)
                try:
                    eng.feed(line)
                except PumpDied:
                    res.count("crashes_unrelated_to_subscriptions")   # C01's business
                    break
                now = {(nn, c) for nn, s in eng.gw.sensors.items() for c in s.children}
                if now != children:
                    children = now
                    res.count("presentations_judged")
                    if not check_cover(res, eng, prefix, children, case, "after-presentation"):
                        break
            res.nontrivial(("subs", prefix, flavour, len(children)))
            # --- restored state: save, then a new gateway with persistence on, start_persistence + start
            if children:
                ext = rng.choice(["json", "pickle"])
                path = os.path.join(tmp, f"s{os.getpid()}.{ext}")
                Persistence(eng.gw.sensors, lambda s: (lambda: None), persistence_file=path).save_sensors()
                from ..persist import PGateway
                pg = PGateway(flavour, version, path, mqtt=True)
                pg.eng.in_prefix = prefix
                pg.gw.tasks.transport.in_prefix = prefix
                pg.start()
                start(pg.eng, loop=pg.loop)
                restored = {(nn, c) for nn, s in pg.gw.sensors.items() for c in s.children}
                res.count("restored_states_judged")
                if restored != children:
                    res.notes.append("restored children differ from saved ones (C11's business)")
                check_cover(res, pg.eng, prefix, restored, dict(case, ext=ext), "after-restore")
                pg.stop()
                pg.close()
                for f in os.listdir(tmp):
                    os.remove(os.path.join(tmp, f))
            if h == 0 and job["i"] == 0:
                res.sample({"kind": "subs", "prefix": prefix, "steps": steps[:8], "subscriptions": [t for (_s, t) in eng.subs][:8]})
    finally:
        shutil.rmtree(tmp, ignore_errors=True)


def start(eng, loop=None):
    """Transport connect = what start() does for the MQTT gateways (subscriptions are set up there)."""
    t = eng.gw.tasks.transport
    if eng.flavour == "sync":
        t.connect()
    else:
        from ..drive import run_coro
        if loop is not None:
            loop.run_until_complete(t.connect())
        else:
            run_coro(t.connect())


def run_robust(job, res):
    from ..drive import PumpDied

    rng = core.rng_for(ID, "robust", job["seed"], job["i"])
    for h in range(job["n"]):
        flavour = ["sync", "async"][h % 2]
        version = rng.choice(["2.0", "2.1", "2.2"])
        eng = mk(flavour, "in", "out", version=version)
        eng.pub_raise = rng.random() < 0.7
        eng.sub_raise = rng.random() < 0.7
        case = {"kind": "robust", "flavour": flavour, "version": version, "pub_raise": eng.pub_raise, "sub_raise": eng.sub_raise}
        res.evals += 1
        try:
            start(eng)
        except Exception as exc:
            res.violation(f"start-raises-with-raising-callback:{core.exc_sig(exc)}", f"start with a raising subscribe callback raised {type(exc).__name__}", case)
            continue
        steps = gen.history(rng, version, 40, {"garbage": 0.1, "ctl": 0.15, "sleep": True, "ota": False})
        # ... and commands that ask for an ack (published with QoS 1): the reply to a request delivered with QoS 1, a
        # controller command with ack=1
        tail = [["in", f"9;255;0;0;17;{version}"], ["in", "9;1;0;0;3;relay"], ["in", "9;1;1;0;2;0"], ["in", "9;1;2;1;2;"],
                ["set", 9, 1, 2, "1", {"ack": 1}], ["in", "9;1;2;1;2;"], ["in", "9;1;2;0;2;"]]
        at = rng.randint(0, len(steps))
        steps[at:at] = tail
        import threading

        outcome = {}

        def play():
            try:
                for s in steps:
                    if s[0] == "in":
                        eng.feed(s[1])
                    elif s[0] == "set":
                        eng.call("set", *s[1:5], **(s[5] if len(s) > 5 and isinstance(s[5], dict) else {}))
                outcome["done"] = True
            except PumpDied:
                outcome["died"] = True
            except BaseException as exc:      # harness trouble: reported by the caller
                outcome["error"] = exc

        th = threading.Thread(target=play, daemon=True, name="vf-robust")
        th.start()
        th.join(30)
        if th.is_alive():
            # message processing never came back: a callback that raised earlier left the pump blocked (a lock that was
            # not released, a wait that is never satisfied)
            res.violation("raising-callback-blocks-pump", f"after a raising {'publish' if eng.pub_raise else 'subscribe'} callback message processing hangs "
                          f"({len(eng.pubs)} publishes, {len(eng.logic_in)} lines handled so far)", dict(case, steps=steps[:30]))
            return          # the blocked thread cannot be recovered: end this job
        if "error" in outcome:
            raise outcome["error"]
        try:
            if outcome.get("died"):
                raise PumpDied()
        except PumpDied:
            # only the callback's doing if the same history survives with silent callbacks (else it is C01's business)
            ref = mk(flavour, "in", "out", version=version)
            try:
                start(ref)
                for s in steps:
                    if s[0] == "in":
                        ref.feed(s[1])
                    elif s[0] == "set":
                        ref.call("set", *s[1:5], **(s[5] if len(s) > 5 and isinstance(s[5], dict) else {}))
            except PumpDied:
                res.count("crashes_unrelated_to_callbacks")
                continue
            res.violation(f"raising-callback-stops-pump:{core.exc_sig(eng.pump_exc)}",
                          f"a raising {'publish' if eng.pub_raise else 'subscribe'} callback made message processing raise {type(eng.pump_exc).__name__}", dict(case, steps=steps[:30]))
            continue
        res.count("raising_pub_calls", len(eng.pubs) if eng.pub_raise else 0)
        res.count("raising_pub_calls_of_commands_that_ask_for_an_ack", sum(1 for p_ in eng.pubs if p_[3]) if eng.pub_raise else 0)
        res.count("raising_sub_calls", len(eng.subs) if eng.sub_raise else 0)
        res.nontrivial(("robust", flavour, eng.pub_raise, eng.sub_raise, len(eng.pubs) > 0, len(eng.subs) > 2))


def run(job):
    res = Result()
    {"accept": run_accept, "roundtrip": run_roundtrip, "subs": run_subs, "robust": run_robust}[job["kind"]](job, res)
    return res


def replay(case):
    res = Result()
    k = case["kind"]
    if k == "accept":
        eng = mk(case.get("flavour", "sync"), case["in_prefix"], "out")
        got = received(eng, case["topic"], "1", 0)
        want = oracle_accepts(case["in_prefix"], case["topic"])
        if got[0] == "raised" or (got[0] == "line") != want:
            res.violation("replay:acceptance", f"{case['topic']!r} -> {got[0]}, want accept={want}", case)
    elif k == "roundtrip":
        A = mk(case.get("flavour", "sync"), "whatever", case["prefix"])
        B = mk(case.get("flavour", "sync"), case["prefix"], "other")
        A.step += 1
        A.gw.tasks.transport.send(case["command"] + "\n")
        if len(A.pubs) != 1:
            res.violation("replay:publish-count", str(len(A.pubs)), case)
        else:
            _s, topic, payload, qos, _r = A.pubs[0]
            got = received(B, topic, payload, qos)
            if got[0] != "line" or got[1].rstrip("\n") != case["command"]:
                res.violation("replay:roundtrip", repr(got), case)
    else:
        r = run({"kind": k, "seed": 0, "i": 0, "n": 30})
        for v in r.violations:
            res.violation(v["sig"], v["what"], v["case"])
    return res


def finish(agg, tier):
    c = agg["counters"]
    return {
        "rule": "in-prefixes: every string of 0-3 levels over {a,1,24,-,empty} (156) plus look-alikes ('1/2/1/0/24', 'a/1/', '/', ...); "
                "per prefix ~100-700 candidate topics (prefix + 4/5/6 levels, shifted / doubled / truncated prefixes, 0-8 random "
                "levels) judged against 'topic == in_prefix + \"/\" + five levels'; round trip send -> (topic, payload, qos) -> recv "
                "over random headers and carriable Unicode payloads with qos>0 iff ack=1; subscription coverage (MQTT filter "
                "matching) after start, after every presentation in random histories, and after restoring json / pickle states; "
                "raising publish / subscribe callbacks. distinct = (prefix shape, relative level count, verdict) / (prefix shape, "
                "command type, ack, payload category).",
        "floors": [("topics_judged", c.get("topics_judged", 0), 20000), ("topics_accepted", c.get("topics_accepted", 0), 1000),
                   ("roundtrips", c.get("roundtrips", 0), 2500), ("required_topics_checked", c.get("required_topics_checked", 0), 3000),
                   ("restored_states_judged", c.get("restored_states_judged", 0), 100),
                   ("raising_pub_calls", c.get("raising_pub_calls", 0), 100), ("raising_sub_calls", c.get("raising_sub_calls", 0), 100),
                   ("raising_pub_calls_of_commands_that_ask_for_an_ack", c.get("raising_pub_calls_of_commands_that_ask_for_an_ack", 0), 40)],
        "assumptions": ["a command's payload is carriable (no ';', CR, LF, trailing blanks), as in C02",
                        "start() for the MQTT gateways = transport.connect() (which sets up the subscriptions); the poll thread is not started"],
        "show": ["topics_judged", "topics_accepted", "topics_rejected", "roundtrips", "required_topics_checked", "presentations_judged", "restored_states_judged"],
    }
