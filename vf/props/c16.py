"""C16 - sending races safely with connection loss and shutdown."""
import threading
import time

from .. import core
from ..core import Result

ID = "C16"
LEVEL = "exploration"
TIMEOUT = {"quick": 900, "thorough": 5400}
SCENARIOS = ["lost-exc", "lost-none", "disconnect", "lost-then-made", "lost-none-then-made"]


def jobs(tier, seed):
    q = tier == "quick"
    out = []
    for sc in SCENARIOS:
        for wfail in (False, True):
            out.append({"kind": "sched", "scenario": sc, "write_fails": wfail, "gran": "line", "bound": 3 if q else 4})
            out.append({"kind": "sched", "scenario": sc, "write_fails": wfail, "gran": "opcode", "bound": 1 if q else 2})
    out.append({"kind": "pump-sched", "gran": "line", "bound": 3 if q else 4, "ncmd": 3})
    out.append({"kind": "pump-sched", "gran": "line", "bound": 2 if q else 3, "ncmd": 3, "with_stop": True})
    out.append({"kind": "pump-sched", "gran": "opcode", "bound": 1 if q else 2, "ncmd": 2})
    out.append({"kind": "pump-sched", "gran": "line", "bound": 2 if q else 3, "ncmd": 3, "slow": True})
    out.append({"kind": "pump-sched", "gran": "opcode", "bound": 1, "ncmd": 2, "slow": True})
    out.append({"kind": "pump-sched", "gran": "line", "bound": 2 if q else 3, "ncmd": 3, "set_calls": True})
    out.append({"kind": "pump-sched", "gran": "line", "bound": 1 if q else 2, "ncmd": 2, "set_calls": True, "slow": True})
    out.append({"kind": "pump-sched", "gran": "line", "bound": 1 if q else 2, "ncmd": 2, "set_calls": True, "callback_cmds": True})
    for i in range(4 if q else 16):
        out.append({"kind": "sim-race", "seed": seed, "i": i, "n": 60 if q else 400})
    for i in range(6 if q else 16):
        out.append({"kind": "producers", "seed": seed, "i": i, "producers": 2 + i % 5, "per": 1000 if q else 5000})
    # real stress: the real threaded gateways on a real loopback socket / pty while the device keeps killing the link
    for i in range(3 if q else 12):
        out.append({"kind": "real-stress", "gw": "serial", "seed": seed * 100 + i, "pace": [[0.003, 0.01, 0.03, 0.08], [0.2, 0.4, 0.6], [0.05, 0.1, 0.3]][i % 3],
                    "churn": [2.0, 4.0, 3.0][i % 3]})
    for i in range(2 if q else 8):
        out.append({"kind": "real-stress", "gw": "tcp", "seed": seed * 100 + i, "pace": [[0.003, 0.01, 0.03, 0.08], [0.05, 0.1, 0.3]][i % 2], "churn": 2.0})
    return out


class Conn:
    """Fake ReaderThread-like connection: refuses writes when closed (like PortNotOpenError / EBADF)."""

    n = 0

    def __init__(self, write_fails=False):
        Conn.n += 1
        self.id = Conn.n
        self.open = True
        self.log = []
        self.closed_writes = 0
        self.write_fails = write_fails
        self.serial = self

    def write(self, data):
        if not self.open:
            self.closed_writes += 1
            raise OSError(9, "write on a closed connection")
        if self.write_fails:
            raise OSError(5, "injected write failure")
        self.log.append(data)

    def close(self):
        self.open = False


def target_codes():
    import mysensors.transport as tr

    fns = [tr.Transport.send, tr.SyncTransport.send, tr.Transport.disconnect, tr.BaseMySensorsProtocol.connection_lost,
           tr.BaseMySensorsProtocol._connection_lost, tr.BaseMySensorsProtocol.connection_made, tr.BaseMySensorsProtocol._connection_made,
           tr.SyncTransport.connect]
    return [f.__code__ for f in fns]


def run_sched(job, res):
    import mysensors.transport as tr
    from mysensors import Gateway
    from ..linesched import Explorer, SchedLock

    scenario, wfail = job["scenario"], job["write_fails"]
    # a short command, or one as long as a firmware block response (57 bytes)
    CMD = "1;1;1;0;2;1\n" if job.get("gran") == "opcode" else "1;255;4;0;3;010001000000" + "AB" * 16 + "\n"
    ex = Explorer(target_codes(), "line" if job["gran"] == "line" else "instr")

    def make(explorer):
        gw = Gateway()
        reconnects = []
        # the real connect() runs (it is what send() and the protocol call to ask for a reconnect); the thread it would
        # start is observed instead of started, every lock it creates or takes is one the scheduler knows
        class NoThread:
            def __init__(self, *a, **kw):
                pass

            def start(self):
                reconnects.append(1)

            def is_alive(self):
                return False

            def join(self, timeout=None):
                return None

        class Threading:
            Thread = NoThread

            def Lock(self):
                return SchedLock(explorer)

            RLock = Lock

            def __getattr__(self, name):
                return getattr(threading, name)

        tr.threading = Threading()
        t = tr.SyncTransport(gw, lambda transport: reconnects.append(1))
        t._lock = SchedLock(explorer)
        gw.tasks = type("T", (), {"transport": t})()
        c1 = Conn(wfail)
        t.protocol.connection_made(c1)
        c2 = Conn(False)
        proto = t.protocol
        ctx = {"conns": [c1, c2], "t": t, "reconnects": reconnects}

        def sender():
            t.send(CMD)

        def event():
            if scenario == "lost-exc":
                proto.connection_lost(OSError("boom"))
            elif scenario == "lost-none":
                proto.connection_lost(None)
            elif scenario == "disconnect":
                t.disconnect()
            elif scenario == "lost-then-made":
                proto.connection_lost(OSError("boom"))
                proto.connection_made(c2)
            else:
                proto.connection_lost(None)
                proto.connection_made(c2)
        return sender, event, ctx

    ex.install()
    try:
        seen_interleavings = 0
        for run, ctx, stuck, sched in ex.explore(make, job["bound"]):
            res.evals += 1
            res.count("schedules")
            case = {"kind": "sched", "scenario": scenario, "write_fails": wfail, "gran": job["gran"], "schedule": sched}
            if stuck:
                res.notes.append(f"schedule stuck (inconclusive): {sched}")
                res.count("stuck_schedules")
                continue
            inside_a = any(t == "A" for t, _ in run.trace)
            inside_b = any(t == "B" for t, _ in run.trace)
            if run.switches and inside_a and inside_b:
                res.nontrivial((scenario, wfail, job["gran"], sched["first"], tuple(i for i, c in enumerate(sched["choices"]) if c)))
                seen_interleavings += 1
            # ---- oracle
            if "A" in run.errors:
                exc = run.errors["A"]
                res.violation(f"send-raises:{core.exc_sig(exc)}", f"{scenario}: send() raised {type(exc).__name__}: {exc} under schedule {sched} (trace tail {run.trace[-6:]})", case)
            # what each connection received, however many write() calls it took: nothing, or the complete command once
            received = [b"".join(c.log) for c in ctx["conns"]]
            writes = [r for r in received if r]
            if sum(r.count(CMD.encode()) for r in received) > 1:
                res.violation("command-written-twice", f"{scenario}: the command was written {sum(r.count(CMD.encode()) for r in received)} times under schedule {sched}", case)
            for d in writes:
                if d != CMD.encode():
                    res.violation("partial-or-garbled-write", f"{scenario}: a connection received {d!r} under schedule {sched}", case)
            if "B" in run.errors:
                res.count("event_side_exceptions")
                res.add_set("event_side_exception_kinds", type(run.errors["B"]).__name__)
            res.count("writes_observed", len(writes))
            res.count("dropped_sends", 0 if writes else 1)
        res.count("schedules_with_real_interleaving", seen_interleavings)
        res.sample({"kind": "sched", "scenario": scenario, "write_fails": wfail, "gran": job["gran"], "bound": job["bound"]})
    finally:
        ex.uninstall()
        tr.threading = threading


def run_pump_sched(job, res):
    """Producer thread vs. the real poll loop under the controlled scheduler: exactly once, in queue order."""
    import mysensors.task as mtask
    from mysensors import BaseSyncGateway
    from ..fakes import Patched
    from ..linesched import Blocked, Explorer, SchedThreading

    codes = [mtask.SyncTasks._poll_queue.__code__, mtask.Tasks.run_job.__code__, mtask.SyncTasks.add_job.__code__,
             mtask.SyncTasks.stop.__code__]

    def nested(code):
        for c in code.co_consts:
            if hasattr(c, "co_code"):
                yield c
                yield from nested(c)

    # generator expressions / comprehensions / lambdas inside those functions are preemption points as well
    set_calls = job.get("set_calls", False)
    if set_calls:
        # the producer is a controller thread calling set_child_value: every function of the gateway class is a
        # preemption point as well
        import inspect
        import mysensors as _ms
        codes += [f.__code__ for _n, f in inspect.getmembers(_ms.Gateway, inspect.isfunction)]
    codes += [c for top in list(codes) for c in nested(top)]
    codes = list(dict.fromkeys(codes))
    slow = job.get("slow", False)
    with_stop = job.get("with_stop", False)
    ex = Explorer(codes, "line" if job["gran"] == "line" else "instr")
    NCMD = job.get("ncmd", 3)

    class T:
        def __init__(self):
            self.log = []
            self.can_log = False

        def send(self, m):
            if m:
                self.log.append(m)

        def connect(self):
            pass

        def disconnect(self):
            pass

    callback_cmds = job.get("callback_cmds", False)

    def make(explorer):
        t = T()
        state = {"sleeps": 0, "clockn": 0}
        # events / locks the tasks object creates are scheduler-aware (a wait yields instead of blocking the OS thread)
        sthr = SchedThreading(explorer, capture=callback_cmds)
        if callback_cmds:
            # the pump is started the way an application starts it (tasks.start()): the thread object it creates is
            # captured and its target runs on the controlled thread B, which threading.current_thread() then reports
            mtask.threading = sthr

            def cb(msg):
                if msg.type == 1 and msg.sub_type == 3 and state.get("armed") and "cb_at" not in state:
                    state["clockn"] += 1
                    state["cb_at"] = state["clockn"]
                    gw.set_child_value(1, 1, 2, "1")     # the application reacts to a report with a command of its own
            gw = BaseSyncGateway(t, event_callback=cb)
        else:
            with Patched((mtask, "threading", sthr)):
                gw = BaseSyncGateway(t)
        tasks = gw.tasks

        class FakeTime:
            def __getattr__(self, n):
                return getattr(time, n)

            @staticmethod
            def sleep(dt):
                state["sleeps"] += 1
                if state["sleeps"] >= 3:
                    tasks._stop_event.set()

            @staticmethod
            def time():
                # with slow=True every job appears to have taken 0.25 s (a slow user callback): the slow-job paths run
                state["clock"] = state.get("clock", 0.0) + (0.25 if slow else 0.0)
                return 1000.0 + state["clock"]

            @staticmethod
            def perf_counter():
                state["clock"] = state.get("clock", 0.0) + (0.25 if slow else 0.0)
                return 1000.0 + state["clock"]

            monotonic = perf_counter

        ctx = {"t": t, "tasks": tasks, "gw": gw, "time": FakeTime(), "state": state}
        if set_calls or callback_cmds:
            for line in ("1;255;0;0;17;1.4", "1;1;0;0;4;dimmer", "1;1;1;0;3;0", "1;1;1;0;2;0"):
                gw.logic(line)
        if callback_cmds:
            state["armed"] = True
            tasks.add_job(gw.logic, "1;1;1;0;3;55")       # a report from the node is waiting to be handled

        def producer():
            if callback_cmds:
                gw.set_child_value(1, 1, 3, "10")
                state["clockn"] += 1
                state["a_done"] = state["clockn"]
                return
            for k in range(NCMD):
                if set_calls:
                    gw.set_child_value(1, 1, 3, str(10 * (k + 1)))      # the same child and value type every time
                else:
                    tasks.add_job(str, f"cmd-{k}\n")
            if with_stop:
                gw.stop()          # the user stops the gateway while the poll thread is somewhere in its loop

        def pump():
            patches = [(mtask, "time", ctx["time"])]
            if slow and hasattr(mtask, "timer"):
                patches.append((mtask, "timer", ctx["time"].perf_counter))
            with Patched(*patches):
                if callback_cmds:
                    tasks.start()
                    sthr.started[-1].run_here()
                else:
                    tasks._poll_queue()
        return producer, pump, ctx

    ex.install()
    try:
        n_inter = 0
        for run, ctx, stuck, sched in ex.explore(make, job["bound"]):
            res.evals += 1
            res.count("pump_schedules")
            case = {"kind": "pump-sched", "gran": job["gran"], "schedule": sched, "bound": job["bound"], "with_stop": with_stop, "slow": slow, "set_calls": set_calls, "callback_cmds": job.get("callback_cmds", False)}
            if stuck:
                res.count("stuck_schedules")
                continue
            if "B" in run.errors:
                exc = run.errors["B"]
                if isinstance(exc, Blocked):
                    if ctx["tasks"].queue and not with_stop:
                        res.violation("pump-blocked-with-queued-commands", f"the poll loop waits forever although {len(ctx['tasks'].queue)} command(s) are queued (lost wake-up) under schedule {sched}", case)
                        continue
                else:
                    res.violation(f"pump-raises:{core.exc_sig(exc)}", f"the poll loop raised {type(exc).__name__}: {exc} under schedule {sched}", case)
                    continue
            if "A" in run.errors:
                exc = run.errors["A"]
                res.violation(f"add-job-raises:{core.exc_sig(exc)}", f"add_job raised {type(exc).__name__}: {exc} under schedule {sched}", case)
                continue
            tasks, t = ctx["tasks"], ctx["t"]
            if callback_cmds:
                while tasks.queue:
                    t.send(tasks.run_job())
                st = ctx["state"]
                C1, C2 = "1;1;1;0;3;10\n", "1;1;1;0;2;1\n"
                res.count("callback_command_schedules")
                if sorted(t.log) != sorted([C1, C2]):
                    res.violation("queued-command-lost-or-duplicated:callback", f"a controller thread queued {C1!r} and the event callback queued {C2!r}; written {t.log!r} under schedule {sched}", case)
                elif st.get("a_done", 10**9) < st.get("cb_at", -1):
                    res.count("callback_command_after_a_waiting_one")
                    if t.log != [C1, C2]:
                        res.violation("queued-command-reordered:callback-jumps-the-queue",
                                      f"{C1!r} was queued by a controller thread before the event callback (poll thread) queued {C2!r}; written {t.log!r} under schedule {sched}", case)
                if run.switches:
                    n_inter += 1
                    res.nontrivial(("pump-callback", job["gran"], sched["first"], tuple(i for i, c in enumerate(sched["choices"]) if c)))
                continue
            want = [f"1;1;1;0;3;{10 * (k + 1)}\n" for k in range(NCMD)] if set_calls else [f"cmd-{k}\n" for k in range(NCMD)]
            if with_stop:
                # after stop() pending commands may be dropped, but what was written must be a duplicate-free
                # subsequence of the queue order
                it = iter(want)
                if len(set(t.log)) != len(t.log) or not all(any(x == y for y in it) for x in t.log):
                    res.violation("queued-command-reordered-or-duplicated:stop", f"producer queued {want!r} then stop(); written {t.log!r} under schedule {sched}", case)
                if run.switches:
                    n_inter += 1
                    res.nontrivial(("pump-stop", job["gran"], sched["first"], tuple(i for i, c in enumerate(sched["choices"]) if c)))
                continue
            # whatever is still queued when the simulated pump stopped is sent by a final fault-free round
            while tasks.queue:
                t.send(tasks.run_job())
            if t.log != want:
                kind = "lost" if len(t.log) < NCMD else "duplicated" if len(t.log) > NCMD else "reordered"
                res.violation(f"queued-command-{kind}", f"producer queued {want!r}; written {t.log!r} under schedule {sched}", case)
            if run.switches:
                n_inter += 1
                res.nontrivial(("pump", job["gran"], sched["first"], tuple(i for i, c in enumerate(sched["choices"]) if c)))
        res.count("pump_schedules_with_real_interleaving", n_inter)
        res.sample({"kind": "pump-sched", "gran": job["gran"], "bound": job["bound"], "commands": NCMD})
    finally:
        ex.uninstall()
        mtask.threading = threading


def run_sim_race(job, res):
    """send() racing with a user disconnect / a link failure in the REAL threaded serial and TCP stacks
    (reader thread, poll thread, ReaderThread / TCPTransport write and close) under the thread simulation."""
    import faulthandler
    from ..lifetimes import run_threaded

    faulthandler.dump_traceback_later(600, exit=True)
    try:
        for k in range(job["n"]):
            kind = ["tcp", "serial"][k % 2]
            tok = ["race-disconnect", "race-read-error"][(k // 2) % 2]
            script = ["ok", "traffic", tok] + (["ok", tok] if tok == "race-read-error" else [])
            ev, meta = run_threaded(kind, job["seed"] * 10000 + job["i"] * 1000 + k, script, rt=3.0)
            res.evals += 1
            res.count("sim_race_lifetimes")
            case = {"kind": "sim-race", "gw": kind, "token": tok, "seed": meta["seed"]}
            for n, tname, msg in meta.get("thread_errors", []):
                if str(n).startswith("_poll_queue"):
                    res.violation(f"sim-race:pump-died:{tname}:{kind}", f"{kind}: the poll thread died with {tname}: {msg} when a send raced with {tok}", case)
                else:
                    res.count("sim_race_other_thread_exceptions")     # not the pump: outside C16 (see DESIGN section 11)
            writes = [e[3] for e in ev if e[1] == "WRITE" and b";3;0;6;" in e[3]]
            acts = sum(1 for e in ev if e[1] == "ACTION" and e[2] in ("traffic", tok))
            if len(writes) > acts:
                res.violation(f"sim-race:reply-written-twice:{kind}", f"{kind}: {len(writes)} replies written for {acts} requests", case)
            res.nontrivial(("sim-race", kind, tok, k))
        res.sample({"kind": "sim-race", "n": job["n"]})
    finally:
        faulthandler.cancel_dump_traceback_later()


def run_real_stress(job, res):
    """Real threaded gateway + real device under connection churn (vf/realdev.py). The run is not replayable bit for bit:
    an anomaly counts when its mechanism (signature up to the exception site) shows again in at least one of two re-runs."""
    from .. import realdev as R

    def once(seed):
        try:
            out = R.run_stress(job["gw"], seed, churn_s=job["churn"], pace=tuple(job["pace"]))
        except OSError as exc:
            if exc.errno in (1, 13, 97, 99, 2, 19):
                return None, repr(exc)
            raise
        return out, None

    out, un = once(job["seed"])
    if un:
        res.count("real_device_unavailable")
        res.notes.append(f"real-device stress unavailable here: {un}")
        return
    V = R.check_stress(out)
    st = out["stats"]
    res.evals += 1
    res.count("real_stress_runs")
    res.count(f"real_stress_runs[{job['gw']}]")
    res.count("real_stress_commands_queued", st["queued"])
    res.count("real_stress_commands_received", st["received"])
    res.count("real_stress_connections_killed", st["drops"])
    res.count("real_stress_connections", st["connections"])
    res.count("real_stress_other_thread_exceptions", st["other_thread_errors"])
    if st["drops"] >= 3 and st["received"] >= 50:
        res.nontrivial(("real-stress", job["gw"], job["seed"]))
    if V:
        mech = lambda sig: ":".join(sig.split(":")[:2])
        again = set()
        for k in (1, 2):
            o2, un2 = once(job["seed"] + 7919 * k)
            if o2 is not None:
                again |= {mech(s) for s, _ in R.check_stress(o2)}
        dropped = [s for s, _ in V if mech(s) not in again]
        if dropped:
            res.count("real_anomalies_not_reproduced", len(dropped))
            res.notes.append(f"real-stress anomaly not seen again in two re-runs (not judged): {dropped[:3]} {job['gw']} seed={job['seed']}")
        V = [(s, w) for s, w in V if mech(s) in again]
    case = {"kind": "real-stress", "gw": job["gw"], "seed": job["seed"], "pace": job["pace"], "churn": job["churn"], "stats": st,
            "thread_errors": [list(map(str, e)) for e in out["errors"][:8]]}
    for sig, what in V:
        res.violation(sig, what + f"  [real {job['gw']} device, {st['drops']} connections killed, {st['received']} commands received]", case)
    if job["seed"] % 100 == 0:
        res.sample({"kind": "real-stress", "gw": job["gw"], "stats": st})


def run_producers(job, res):
    """Several producers queue tagged commands; the real poll thread must send each exactly once, per-producer FIFO."""
    import sys
    import mysensors.task as mtask
    import mysensors.transport as tr
    from mysensors import BaseSyncGateway

    rng = core.rng_for(ID, job["seed"], job["i"])
    real_sleep = time.sleep

    class FastTime:
        def __getattr__(self, n):
            return getattr(time, n)

        @staticmethod
        def sleep(dt):
            real_sleep(0.0002)

    died = []
    old_hook = threading.excepthook
    threading.excepthook = lambda a: died.append(a.exc_type.__name__)
    old_time = mtask.time
    old_threading = mtask.threading
    mtask.time = FastTime()
    mtask.threading = threading
    old_si = sys.getswitchinterval()
    sys.setswitchinterval(1e-5)
    try:
        gw_holder = {}
        t = tr.SyncTransport(None, lambda transport: None)
        gw = BaseSyncGateway(t)
        t.gateway = gw
        t.protocol.gateway = gw
        conn = Conn(False)
        t.protocol.connection_made(conn)
        gw.start()
        P, per = job["producers"], job["per"]

        def producer(pid):
            for k in range(per):
                gw.tasks.add_job(str, f"{pid};{k % 255};1;0;24;{pid}-{k}\n")
                if k % 50 == 0:
                    real_sleep(0)

        ths = [threading.Thread(target=producer, args=(p,)) for p in range(P)]
        for th in ths:
            th.start()
        for th in ths:
            th.join()
        deadline = time.time() + 60
        while (gw.tasks.queue or len(conn.log) < P * per) and time.time() < deadline and not died:
            real_sleep(0.002)
        gw.tasks._stop_event.set()
        real_sleep(0.005)
        res.evals += P * per
        res.count("commands_queued", P * per)
        res.count("commands_written", len(conn.log))
        case = {"kind": "producers", "producers": P, "per": per}
        if died:
            res.violation(f"pump-died:{died[0]}", f"the poll thread died with {died}", case)
        seen = {}
        last = {}
        for d in conn.log:
            tag = d.decode().rstrip("\n").split(";")[5]
            pid, k = (int(x) for x in tag.split("-"))
            seen[tag] = seen.get(tag, 0) + 1
            if k < last.get(pid, -1):
                res.violation("queue-order-violated", f"producer {pid}: command {k} written after {last[pid]}", case)
                break
            last[pid] = k
        dup = [t_ for t_, c in seen.items() if c > 1]
        missing = P * per - len(seen)
        if dup:
            res.violation("command-sent-twice", f"{len(dup)} commands were written more than once, e.g. {dup[:3]}", case)
        if missing and not died:
            res.violation("command-lost", f"{missing} queued commands were never written", case)
        res.nontrivial(("producers", P, per, job["i"]))
        res.sample(case)
    finally:
        sys.setswitchinterval(old_si)
        mtask.time = old_time
        mtask.threading = old_threading
        threading.excepthook = old_hook


def run(job):
    res = Result()
    if job["kind"] == "sched":
        run_sched(job, res)
    elif job["kind"] == "pump-sched":
        run_pump_sched(job, res)
    elif job["kind"] == "sim-race":
        run_sim_race(job, res)
    elif job["kind"] == "real-stress":
        run_real_stress(job, res)
    else:
        run_producers(job, res)
    return res


def replay(case):
    res = Result()
    if case["kind"] == "real-stress":
        r = run({"kind": "real-stress", "gw": case["gw"], "seed": case["seed"], "pace": case["pace"], "churn": case["churn"]})
    elif case["kind"] == "sim-race":
        r = run({"kind": "sim-race", "seed": 0, "i": 0, "n": 200})
    elif case["kind"] == "pump-sched":
        r = run({"kind": "pump-sched", "gran": case["gran"], "bound": case.get("bound", 2), "ncmd": 3, "with_stop": case.get("with_stop", False), "slow": case.get("slow", False), "set_calls": case.get("set_calls", False), "callback_cmds": case.get("callback_cmds", False)})
    elif case["kind"] == "sched":
        r = run({"kind": "sched", "scenario": case["scenario"], "write_fails": case["write_fails"], "gran": case["gran"], "bound": 2})
    else:
        r = run({"kind": "producers", "seed": 0, "i": 0, "producers": case["producers"], "per": case["per"]})
    for v in r.violations:
        res.violation(v["sig"], v["what"], v["case"])
    return res


def finish(agg, tier):
    c = agg["counters"]
    return {
        "rule": "two real threads under a sys.monitoring controlled scheduler: one calls SyncTransport.send(cmd), the other one of "
                "{connection_lost(exc), connection_lost(None), disconnect(), loss then connection_made(new)}; with the write "
                "succeeding or raising OSError. All schedules with at most `bound` preemptions at source-line granularity (quick 2, "
                "thorough 3) plus opcode granularity (quick 1, thorough 2), both start orders; the transport's real connect() runs (the thread "
                "it would start is recorded instead) and every lock the transport creates is scheduler-aware, so two threads that only hand "
                "the baton back and forth are reported as a deadlock of send(). "
                "Oracle per schedule: no exception out of send, command written at most once and completely, never to a closed "
                "connection (the fake refuses). Producer vs. the real poll loop (_poll_queue / run_job / add_job) under the same scheduler: "
                "every queued command written exactly once and in queue order (events the tasks object waits on are scheduler-aware, so a "
                "lost wake-up shows as the loop waiting forever with commands queued); in one variant the pump is started through tasks.start() "
                "(the thread object it creates is captured, its target runs on the controlled thread and current_thread() reports it) and the "
                "event callback queues a command of its own while one from a controller thread is waiting: both written once, the waiting one first. The same races in the real threaded serial / "
                "TCP stacks under the thread simulation: a reply being sent exactly when the user disconnects or the link fails. "
                "Producers x pump: 2-6 real producer threads and the real poll thread (switch interval "
                "10 us) checked by an exactly-once / per-producer-FIFO log checker. Real stress: the real SerialGateway / TCPGateway on "
                "a real pty / 127.0.0.1 socket, 3 producer threads queueing numbered commands while the device kills the connection "
                "every 3-600 ms for 2-4 s, then a quiet phase and a final batch; the device's receive log is checked for commands "
                "received twice, garbled or out of queue order, the poll thread must survive, and once the faults stop every queued "
                "command must arrive, and stop() must return (if it has not after 12 s, the library frames of all threads are sampled three times: "
                "stacks that do not move are reported as threads blocked for good) (an anomaly counts when its mechanism shows again in one of two re-runs). distinct = (scenario, write outcome, granularity, "
                "start thread, switch positions); non-trivial when the schedule really switched inside both bodies.",
        "exhaustive": True,
        "floors": [("schedules", c.get("schedules", 0), 1500), ("schedules_with_real_interleaving", c.get("schedules_with_real_interleaving", 0), 1000),
                   ("commands_written", c.get("commands_written", 0), 4000),
                   ("pump_schedules_with_real_interleaving", c.get("pump_schedules_with_real_interleaving", 0), 300),
                   ("sim_race_lifetimes", c.get("sim_race_lifetimes", 0), 200),
                   ("callback_command_after_a_waiting_one", c.get("callback_command_after_a_waiting_one", 0), 10)]
                  + ([] if c.get("real_device_unavailable") else
                     [("real_stress_runs[serial]", c.get("real_stress_runs[serial]", 0), 3), ("real_stress_runs[tcp]", c.get("real_stress_runs[tcp]", 0), 2),
                      ("real_stress_commands_received", c.get("real_stress_commands_received", 0), 2000),
                      ("real_stress_connections_killed", c.get("real_stress_connections_killed", 0), 40)]),
        "assumptions": ["exhaustive below the stated preemption bound only; preemption points are source lines / opcodes of the transport "
                        "and protocol methods (library code they call is atomic for the scheduler)"],
        "show": ["schedules", "schedules_with_real_interleaving", "writes_observed", "dropped_sends", "event_side_exceptions", "commands_queued", "commands_written",
                 "real_stress_runs", "real_stress_connections_killed", "real_stress_commands_received", "real_stress_other_thread_exceptions", "real_anomalies_not_reproduced"],
    }
