"""C18 - documented configuration is accepted and honoured."""
import ast
import asyncio
import itertools
import os
import re
import threading
import types

from .. import core
from ..core import Result

ID = "C18"
LEVEL = "exploration"
CLASSES = ["SerialGateway", "AsyncSerialGateway", "TCPGateway", "AsyncTCPGateway", "MQTTGateway", "AsyncMQTTGateway"]
COMMON = ["event_callback", "persistence", "persistence_file", "protocol_version"]
OPTS = {
    "SerialGateway": COMMON + ["baud", "timeout", "reconnect_timeout"],
    "AsyncSerialGateway": COMMON + ["baud", "timeout", "reconnect_timeout"],
    "TCPGateway": COMMON + ["port", "timeout", "reconnect_timeout"],
    "AsyncTCPGateway": COMMON + ["port", "timeout", "reconnect_timeout"],
    "MQTTGateway": COMMON + ["in_prefix", "out_prefix", "retain"],
    "AsyncMQTTGateway": COMMON + ["in_prefix", "out_prefix", "retain"],
}
VALUES = {
    "persistence": [True, False],
    "persistence_file": ["/nonexistent-dir/net.json", "state.pickle"],
    "protocol_version": ["1.5", "2.0", "2.2"],
    "baud": [9600, 57600],
    "port": [5003, 6001],
    "timeout": [0.5, 3.0],
    "reconnect_timeout": [2.5, 30.0],
    "in_prefix": ["mygw-in", "a/b"],
    "out_prefix": ["mygw-out", ""],
    "retain": [False, True],
}


def jobs(tier, seed):
    out = [{"kind": "subsets", "cls": c, "seed": seed} for c in CLASSES]
    out.append({"kind": "readme"})
    for part in range(4):
        out.append({"kind": "gwversions", "part": part})
        out.append({"kind": "nodeversions", "part": part})
    for c in CLASSES[:4]:
        out.append({"kind": "connect", "cls": c})
        if "Serial" in c:
            out.append({"kind": "port-symlink", "cls": c})
    for c in CLASSES:
        out.append({"kind": "persist-effect", "cls": c})
    # the host option of the TCP classes against a real device on the loopback interface, IPv4 and IPv6
    for fl in ("threaded", "asyncio"):
        for host in ("127.0.0.1", "::1"):
            out.append({"kind": "real-host", "flavour": fl, "host": host})
    return out


def get_class(name):
    import mysensors.mysensors as ms

    return getattr(ms, name)


def construct(clsname, kw, cb):
    cls = get_class(clsname)
    kw = dict(kw)
    if "event_callback" in kw:
        kw["event_callback"] = cb
    if "MQTT" in clsname:
        pubs, subs = [], []
        gw = cls(lambda *a: pubs.append(a), lambda *a: subs.append(a), **kw)
        gw._vf = (pubs, subs)
        return gw
    if "Serial" in clsname:
        return cls("/dev/fake-tty", **kw)
    return cls("10.1.2.3", **kw)


def table_class(gw):
    """Which protocol table a gateway behaves like, judged by distinguishing frames."""
    return frames_class(lambda line: effect_of(gw, line))


def effect_of(gw, line):
    before = repr(sorted((n, sorted(s.children)) for n, s in gw.sensors.items()))
    vals = lambda: repr({(n, c): dict(ch.values) for n, s in gw.sensors.items() for c, ch in s.children.items()})
    v0 = vals()
    gw.logic(line)
    return vals() != v0


def frames_class(accepts):
    if not accepts("1;1;1;0;40;ffffff"):
        return "1.4"
    if not accepts("1;1;1;0;47;some text"):
        return "1.5"
    return "2.x"


def expected_table(major, minor, patch=None):
    t = (major, minor, patch or 0)
    best = "1.4"
    for name, key in (("1.4", (1, 4, 0)), ("1.5", (1, 5, 0)), ("2.0", (2, 0, 0)), ("2.1", (2, 1, 0)), ("2.2", (2, 2, 0))):
        if t >= key:
            best = name
    return best


def run_subsets(job, res):
    clsname = job["cls"]
    opts = OPTS[clsname]
    for r in range(len(opts) + 1):
        for sub in itertools.combinations(opts, r):
            for variant in (0, 1):
                kw = {}
                for o in sub:
                    kw[o] = None if o == "event_callback" else VALUES[o][variant % len(VALUES[o])]
                calls = []
                case = {"kind": "subsets", "cls": clsname, "options": {k: repr(v) for k, v in kw.items()}}
                res.evals += 1
                try:
                    gw = construct(clsname, kw, lambda m: calls.append(m))
                except Exception as exc:
                    bad = sorted(set(sub) & {"timeout", "reconnect_timeout"}) or sorted(sub)
                    res.violation(f"constructor-raises:{type(exc).__name__}:{'+'.join(bad) if len(bad) <= 2 else 'options'}",
                                  f"{clsname}({', '.join(f'{k}={v!r}' for k, v in kw.items())}) raised {type(exc).__name__}: {exc}", case)
                    continue
                res.count("constructed")
                res.nontrivial((clsname, sub, variant))
                t = gw.tasks.transport
                def bad(opt, what):
                    res.violation(f"option-ignored:{opt}", f"{clsname}: {opt}={kw.get(opt)!r} {what}", case)
                if "timeout" in kw and getattr(t, "timeout", None) != kw["timeout"]:
                    bad("timeout", f"but transport.timeout is {getattr(t, 'timeout', None)!r}")
                if "timeout" not in kw and "MQTT" not in clsname and getattr(t, "timeout", None) != 1.0:
                    bad("timeout", f"default is {getattr(t, 'timeout', None)!r}, documented default 1.0")
                if "reconnect_timeout" in kw and getattr(t, "reconnect_timeout", None) != kw["reconnect_timeout"]:
                    bad("reconnect_timeout", f"but transport.reconnect_timeout is {getattr(t, 'reconnect_timeout', None)!r}")
                if "reconnect_timeout" not in kw and "MQTT" not in clsname and getattr(t, "reconnect_timeout", None) != 10.0:
                    bad("reconnect_timeout", f"default is {getattr(t, 'reconnect_timeout', None)!r}, documented default 10.0")
                if "baud" in kw and gw.baud != kw["baud"]:
                    bad("baud", f"but gateway.baud is {gw.baud!r}")
                if "Serial" in clsname and gw.port != "/dev/fake-tty":
                    bad("port", f"gateway.port is {gw.port!r}")
                if "TCP" in clsname and gw.server_address != ("10.1.2.3", kw.get("port", 5003)):
                    bad("port", f"gateway.server_address is {gw.server_address!r}")
                pers = gw.tasks.persistence
                if kw.get("persistence"):
                    if pers is None:
                        bad("persistence", "but no persistence object exists")
                    elif "persistence_file" in kw and pers.persistence_file != kw["persistence_file"]:
                        bad("persistence_file", f"but persistence file is {pers.persistence_file!r}")
                elif pers is not None:
                    bad("persistence", "persistence is on although it was not requested")
                want = kw.get("protocol_version", "1.4")
                got = table_class_fresh(clsname, kw)
                if got != ("2.x" if want >= "2.0" else want):
                    bad("protocol_version", f"behaves like {got}")
                # event callback honoured on the next accepted message
                n0 = len(calls)
                gw.logic("9;255;0;0;17;2.0")
                if "event_callback" in kw and len(calls) != n0 + 1:
                    bad("event_callback", f"was called {len(calls) - n0} times for one accepted presentation")
                if "MQTT" in clsname:
                    pubs, subs = gw._vf
                    ip, op, rt = kw.get("in_prefix", ""), kw.get("out_prefix", ""), kw.get("retain", True)
                    if t.in_prefix != ip or t.out_prefix != op:
                        bad("in_prefix" if t.in_prefix != ip else "out_prefix", f"transport prefixes are {t.in_prefix!r}/{t.out_prefix!r}")
                    # one outbound message of every command the gateway publishes (set, req, internal, stream/OTA, presentation)
                    for out_line, topic in (("1;2;1;0;2;1\n", "/1/2/1/0/2"), ("1;2;2;0;2;\n", "/1/2/2/0/2"), ("1;255;3;0;13;\n", "/1/255/3/0/13"),
                                            ("1;255;4;0;1;0100010008000A0B\n", "/1/255/4/0/1"), ("1;255;4;0;3;010001000000" + "AB" * 16 + "\n", "/1/255/4/0/3"),
                                            ("1;255;0;0;19;\n", "/1/255/0/0/19")):
                        n_p = len(pubs)
                        t.send(out_line)
                        res.count("mqtt_publishes_observed")
                        if len(pubs) != n_p + 1 or pubs[-1][0] != f"{op}{topic}" or pubs[-1][3] is not rt:
                            bad("retain" if len(pubs) > n_p and pubs[-1][3] is not rt else "out_prefix",
                                f"publish of {out_line.strip()!r} was {pubs[-1] if len(pubs) > n_p else None!r}")
                            break
                    gw.init_topics() if hasattr(gw, "init_topics") else None
                    if not subs or not all(s[0].startswith(ip + "/") for s in subs):
                        bad("in_prefix", f"subscriptions {[s[0] for s in subs][:3]!r}")
                    res.count("mqtt_publish_checks")
    res.sample({"kind": "subsets", "cls": clsname, "options": opts, "subsets": 2 ** len(opts)})


def table_class_fresh(clsname, kw):
    calls = []
    gw = construct(clsname, {k: v for k, v in kw.items() if k not in ("persistence", "persistence_file")}, lambda m: calls.append(m))
    gw.logic("1;255;0;0;17;2.0")
    gw.logic("1;1;0;0;23;c")
    return table_class(gw)


def run_readme(job, res):
    """Execute the README's constructor snippets literally (under the real classes; nothing is opened)."""
    import mysensors.mysensors as ms

    with open(os.path.join(core.REPO, "README.md"), encoding="utf-8") as fh:
        text = fh.read()
    blocks = re.findall(r"```py\n(.*?)```", text, re.S)
    n = 0
    for b in blocks:
        if "Gateway(" not in b:
            continue
        try:
            tree = ast.parse(b)
        except SyntaxError:
            continue
        for node in tree.body:
            if isinstance(node, ast.Assign) and isinstance(node.value, ast.Call) and "Gateway" in ast.unparse(node.value.func):
                src = ast.unparse(node)
                calls = []
                ns = {"mysensors": ms, "event": lambda m: calls.append(m)}
                n += 1
                res.evals += 1
                case = {"kind": "readme", "snippet": src}
                try:
                    exec(compile(ast.Module([node], []), "<readme>", "exec"), ns)
                except Exception as exc:
                    res.violation(f"readme-snippet-raises:{type(exc).__name__}", f"README snippet {src!r} raised {type(exc).__name__}: {exc}", case)
                    continue
                gw = ns.get("GATEWAY")
                res.count("readme_snippets_run")
                res.nontrivial(("readme", src))
                if "event" in src:
                    gw.logic("9;255;0;0;17;2.0")
                    if len(calls) != 1:
                        res.violation("readme-snippet-callback-not-used", f"README snippet {src!r}: the event callback was called {len(calls)} times for an accepted message", case)
                kws = {k.arg: ast.literal_eval(k.value) for k in node.value.keywords if k.arg not in ("event_callback",)}
                t = gw.tasks.transport
                for k, v in kws.items():
                    got = {"timeout": getattr(t, "timeout", None), "reconnect_timeout": getattr(t, "reconnect_timeout", None),
                           "baud": getattr(gw, "baud", None), "port": (getattr(gw, "server_address", (None, None))[1]),
                           "protocol_version": gw.protocol_version, "persistence": gw.tasks.persistence is not None,
                           "persistence_file": getattr(gw.tasks.persistence, "persistence_file", None)}.get(k, v)
                    if got != v:
                        res.violation(f"readme-option-ignored:{k}", f"README snippet {src!r}: {k}={v!r} not honoured (is {got!r})", case)
                res.sample(case)
    if n == 0:
        res.notes.append("no constructor snippet found in README.md")


def version_strings(part):
    out = []
    for major in range(0, 4):
        for minor in range(0, 13):
            for patch in (None, 0, 1, 2, 3):
                out.append((major, minor, patch))
    return out[part::4]


BEHAVIOUR_SCRIPT = [
    ("in", "1;255;0;0;17;2.1.1"), ("in", "1;255;3;0;11;sketch"), ("in", "1;255;3;0;12;1.0"), ("in", "1;1;0;0;3;relay"),
    ("in", "1;1;1;0;2;0"), ("in", "1;2;0;0;6;temp"), ("in", "1;2;1;0;0;20.5"),
    ("in", "1;255;3;0;22;100"),            # heartbeat: the wake-up announcement of 2.0 / 2.1
    ("set", (1, 1, 2, "1")), ("in", "1;1;2;0;2;"), ("in", "1;255;3;0;6;0"),
    ("in", "1;255;3;0;22;200"), ("in", "1;1;1;0;2;1"),
    ("in", "1;255;3;0;32;500"),            # pre sleep notification: the announcement of 2.2
    ("set", (1, 1, 2, "0")), ("in", "1;2;2;0;0;"), ("in", "1;255;3;0;22;300"), ("in", "1;255;3;0;32;500"),
    ("in", "9;3;1;0;0;20.5"), ("in", "255;255;3;0;3;"), ("in", "0;255;3;0;14;Gateway startup complete."),
    ("in", "9;255;3;0;21;0"), ("in", "1;1;1;0;40;ff00ff"), ("in", "1;1;1;0;47;text"), ("in", "1;255;3;0;0;55"),
    ("in", "1;255;3;0;13;0"), ("in", "1;1;1;1;2;1"), ("in", "1;255;3;0;24;1"), ("in", "1;255;3;0;33;x"),
    ("set", (1, 2, 0, "21.5")), ("in", "1;255;3;0;22;400"), ("in", "1;255;3;0;32;500"),
]


def behaviour_transcript(v, flavour="sync"):
    """What a gateway configured with v does with one fixed conversation: sends, callbacks, final node table."""
    from ..drive import Engine, PumpDied, projection

    eng = Engine(flavour, v)
    marks = []
    for kind, arg in BEHAVIOUR_SCRIPT:
        try:
            if kind == "in":
                eng.feed(arg)
                marks.append(None)
            else:
                err = eng.call("set", *arg)
                marks.append(type(err).__name__ if err is not None else None)
        except PumpDied:
            marks.append("raised:" + type(eng.pump_exc).__name__)
    per = []
    for k in range(len(BEHAVIOUR_SCRIPT)):
        per.append((marks[k], [l for (st, o, l) in eng.sent if st == k], [f for (st, f, _p) in eng.cbs if st == k]))
    return per, projection(eng.gw.sensors)


def run_gwversions(job, res):
    from mysensors import BaseAsyncGateway
    from ..drive import AsyncRecT

    canon = {}
    for (major, minor, patch) in version_strings(job["part"]):
        v = f"{major}.{minor}" + ("" if patch is None else f".{patch}")
        want = expected_table(major, minor, patch)
        if v == want:
            continue
        fl = ("sync", "async")[(major + minor + (patch or 0)) % 2]
        res.evals += 1
        try:
            if (want, fl) not in canon:
                canon[(want, fl)] = behaviour_transcript(want, fl)
            got = behaviour_transcript(v, fl)
        except Exception as exc:
            res.violation(f"gateway-version-raises:{type(exc).__name__}", f"Gateway(protocol_version={v!r}) raised {type(exc).__name__}: {exc}", {"kind": "gwversion", "version": v})
            continue
        res.count("gateway_version_conversations_compared")
        ref = canon[(want, fl)]
        if got != ref:
            k = next((i for i in range(len(ref[0])) if got[0][i] != ref[0][i]), None)
            at = "final-table" if k is None else "after:" + ";".join(str(BEHAVIOUR_SCRIPT[k][1]).split(";")[2:5:2]) if BEHAVIOUR_SCRIPT[k][0] == "in" else "set"
            res.violation(f"gateway-version-conversation-differs:want={want}:{at}:{'patch0' if patch == 0 else 'patch' if patch else 'nopatch'}",
                          f"protocol_version {v!r} should select the {want} behaviour, but the same conversation goes differently than with {want!r}"
                          + (f": at step {k} {BEHAVIOUR_SCRIPT[k]!r} got {got[0][k]!r}, {want!r} gives {ref[0][k]!r}" if k is not None else ": the final node tables differ"),
                          {"kind": "gwversion", "version": v})

    for (major, minor, patch) in version_strings(job["part"]):
        v = f"{major}.{minor}" + ("" if patch is None else f".{patch}")
        want = expected_table(major, minor, patch)
        case = {"kind": "gwversion", "version": v}
        res.evals += 1
        try:
            t = AsyncRecT()
            gw = BaseAsyncGateway(t, protocol_version=v)
            gw.logic(f"1;255;0;0;17;2.0")
            gw.logic("1;1;0;0;23;c")
            got = table_class(gw)
            two_two = None
            two = None
            if got == "2.x":
                n0 = len(t.log)
                gw.logic("8;8;1;0;0;1")          # unknown node: >= 2.0 requests a presentation
                two = len(t.log) > n0
                gw.logic("1;255;3;0;32;500")     # 2.2: pre-sleep notification starts smart sleep
                two_two = gw.logic("1;255;3;0;6;0") is None   # config request: withheld iff asleep
        except Exception as exc:
            res.violation(f"gateway-version-raises:{type(exc).__name__}", f"Gateway(protocol_version={v!r}) raised {type(exc).__name__}: {exc}", case)
            continue
        res.count("gateway_versions_judged")
        res.nontrivial(("gw", v))
        wcls = "2.x" if want >= "2.0" else want
        if got != wcls:
            res.violation(f"gateway-version-table:want={want}:got={got}:{'patch0' if patch == 0 else 'patch' if patch else 'nopatch'}",
                          f"protocol_version {v!r} should select the {want} behaviour, but the gateway validates like {got}", case)
        elif got == "2.x":
            if two is False:
                res.violation(f"gateway-version-behaviour:no-presentation-request:{'patch0' if patch == 0 else 'patch' if patch else 'nopatch'}",
                              f"protocol_version {v!r} ({want}): no presentation request for an unknown node", case)
            if (want == "2.2") != bool(two_two):
                res.violation(f"gateway-version-table:want={want}:smartsleep-trigger={'2.2' if two_two else 'pre-2.2'}",
                              f"protocol_version {v!r} should behave like {want}, pre-sleep notification handling says {'2.2' if two_two else 'older'}", case)
    if job["part"] == 0:
        for v, want in (("abc", "1.4"), ("", "1.4"), (None, "1.4"), (2.0, "2.0"), (1.5, "1.5"), ("1.3", "1.4"), ("0.9.9", "1.4"),
                        # numbers and major-only strings, by numeric comparison
                        (2, "2.0"), ("2", "2.0"), (3, "2.2"), ("3", "2.2"), (1, "1.4"), ("1", "1.4"), (2.1, "2.1"), (2.2, "2.2"), (22, "2.2"), ("10", "2.2")):
            case = {"kind": "gwversion", "version": repr(v)}
            res.evals += 1
            try:
                gw = BaseAsyncGateway(AsyncRecT(), protocol_version=v)
                gw.logic("1;255;0;0;17;2.0")
                gw.logic("1;1;0;0;23;c")
                got = table_class(gw)
            except Exception as exc:
                res.violation(f"gateway-version-raises:{type(exc).__name__}", f"Gateway(protocol_version={v!r}) raised {type(exc).__name__}: {exc}", case)
                continue
            res.count("gateway_versions_judged")
            if got != ("2.x" if want >= "2.0" else want):
                res.violation(f"gateway-version-table:want={want}:got={got}:special", f"protocol_version {v!r} should select {want}, behaves like {got}", case)
            elif want >= "2.0":
                try:
                    if behaviour_transcript(v, "sync") != behaviour_transcript(want, "sync"):
                        res.violation(f"gateway-version-conversation-differs:want={want}:special", f"protocol_version {v!r} should select the {want} behaviour, but the same conversation goes differently than with {want!r}", case)
                    res.count("gateway_version_conversations_compared")
                except Exception as exc:
                    res.violation(f"gateway-version-raises:{type(exc).__name__}", f"Gateway(protocol_version={v!r}) raised {type(exc).__name__}: {exc}", case)
        for v in ("v2.2", "2.2.0-rc1", "2.", " 2.0"):
            try:
                BaseAsyncGateway(AsyncRecT(), protocol_version=v).logic("1;255;0;0;17;2.0")
                res.count("undecided_versions_executed")
            except Exception as exc:
                res.violation(f"gateway-version-raises:{type(exc).__name__}", f"Gateway(protocol_version={v!r}) raised {type(exc).__name__}: {exc}", {"kind": "gwversion", "version": repr(v)})
    res.sample({"kind": "gwversion", "examples": ["2.0.0", "2.10", "1.3.3"]})


def run_nodeversions(job, res):
    """The version a node presents selects its table by the same rule (seen through accepted desired values)."""
    from mysensors import BaseAsyncGateway
    from ..drive import AsyncRecT

    todo = [(f"{major}.{minor}" + ("" if patch is None else f".{patch}"), expected_table(major, minor, patch), major, minor, patch)
            for (major, minor, patch) in version_strings(job["part"])]
    if job["part"] == 0:
        # a node built with a library that reports only the major number
        todo += [("2", "2.0", 2, 0, None), ("3", "2.2", 3, 0, None), ("10", "2.2", 10, 0, None)]
    for (v, want, major, minor, patch) in todo:
        case = {"kind": "nodeversion", "version": v}
        res.evals += 1
        try:
            gw = BaseAsyncGateway(AsyncRecT(), protocol_version="2.2")
            ptype = 17 if (major, minor) >= (1, 4) else 6
            gw.logic(f"1;255;0;0;{ptype};{v}")
            if 1 not in gw.sensors:
                res.violation("node-version-presentation-rejected", f"node presentation with version {v!r} was not accepted", case)
                continue
            gw.logic("1;1;0;0;23;c")
            gw.logic("1;1;1;0;40;000000")
            gw.logic("1;1;1;0;47;t")
            gw.logic("1;255;3;0;32;500")
            def accepted(vt, val):
                try:
                    gw.set_child_value(1, 1, vt, val)
                    return True
                except Exception:
                    return False
            got = frames_class(lambda line: accepted(int(line.split(";")[4]), line.split(";")[5]))
        except Exception as exc:
            res.violation(f"node-version-raises:{type(exc).__name__}", f"node version {v!r}: {type(exc).__name__}: {exc}", case)
            continue
        res.count("node_versions_judged")
        res.nontrivial(("node", v))
        wcls = "2.x" if want >= "2.0" else want
        if got != wcls:
            res.violation(f"node-version-table:want={want}:got={got}:{'patch0' if patch == 0 else 'patch' if patch else 'nopatch'}",
                          f"a node presenting {v!r} should be treated as {want}, but desired values are validated like {got}", case)
    res.sample({"kind": "nodeversion", "examples": ["2.0.0", "1.5.0", "1.3"]})


def run_connect(job, res):
    """The values given are the values used when connecting (first attempt + retry delay)."""
    import serial
    import socket as real_socket
    import mysensors.gateway_serial as gs
    import mysensors.gateway_tcp as gt
    from ..fakes import Patched, VLoop

    clsname = job["cls"]
    for variant in (0, 1):
        kw = {"timeout": VALUES["timeout"][variant], "reconnect_timeout": VALUES["reconnect_timeout"][variant]}
        if "Serial" in clsname:
            kw["baud"] = VALUES["baud"][variant]
        else:
            kw["port"] = VALUES["port"][variant]
        seen = {"attempts": [], "sleeps": []}
        case = {"kind": "connect", "cls": clsname, "options": kw}
        res.evals += 1
        try:
            gw = construct(clsname, kw, None)
        except Exception as exc:
            res.violation(f"constructor-raises:{type(exc).__name__}:connect-options", f"{clsname}({kw}) raised {type(exc).__name__}: {exc}", case)
            continue
        # another gateway of the same kind with other option values is created in the same process before this one
        # connects: each gateway must use its own settings
        other = {"timeout": VALUES["timeout"][1 - variant], "reconnect_timeout": VALUES["reconnect_timeout"][1 - variant]}
        if "Serial" in clsname:
            other["baud"] = VALUES["baud"][1 - variant]
        else:
            other["port"] = VALUES["port"][1 - variant]
        try:
            construct(clsname, other, None)
            res.count("second_gateways_constructed_before_connect")
        except Exception:
            pass
        t = gw.tasks.transport
        done = threading.Event()
        if not clsname.startswith("Async"):
            class FakeTime:
                def time(self):
                    return 0.0

                def sleep(self, dt):
                    seen["sleeps"].append(dt)
                    t.disconnect()
                    done.set()
            class SerMod:
                SerialException = serial.SerialException
                threaded = serial.threaded
                tools = getattr(serial, "tools", None)

                def serial_for_url(self, *a, **k):
                    seen["attempts"].append((a, k))
                    raise serial.SerialException("nope")
            class SockMod:
                timeout = real_socket.timeout

                def create_connection(self, *a, **k):
                    seen["attempts"].append((a, k))
                    raise ConnectionRefusedError(111, "refused")
            with Patched((gs, "time", FakeTime()), (gs, "serial", SerMod()), (gt, "time", FakeTime()), (gt, "socket", SockMod())):
                t.connect()
                done.wait(5)
        else:
            loop = VLoop()
            class SA:
                async def create_serial_connection(self, *a, **k):
                    seen["attempts"].append((a[2:], k))
                    seen.setdefault("times", []).append(loop.time())
                    raise serial.SerialException("nope")
            async def create_connection(factory, *a, **k):
                seen["attempts"].append((a, k))
                seen.setdefault("times", []).append(loop.time())
                raise ConnectionRefusedError(111, "refused")
            loop.create_connection = create_connection
            with Patched((gs, "serial_asyncio", SA())):
                async def main():
                    task = loop.create_task(t.connect())
                    await asyncio.sleep(kw["reconnect_timeout"] * 2.5)
                    task.cancel()
                    try:
                        await task
                    except BaseException:
                        pass
                loop.run_until_complete(main())
            loop.close()
            ts = seen.get("times", [])
            seen["sleeps"] = [round(b - a, 6) for a, b in zip(ts, ts[1:])][:1]
        res.count("connect_attempts_observed", len(seen["attempts"]))
        res.nontrivial((clsname, variant))
        if not seen["attempts"]:
            res.notes.append(f"{clsname}: no connect attempt observed (substitution unused)")
            continue
        a, k = seen["attempts"][0]
        flat = list(a) + list(k.values())
        if "Serial" in clsname:
            if "/dev/fake-tty" not in flat or kw["baud"] not in flat:
                res.violation("connect-ignores:port-or-baud", f"{clsname}: connect used {a} {k}", case)
            if not clsname.startswith("Async") and kw["timeout"] not in flat:
                res.violation("connect-ignores:timeout", f"{clsname}: read timeout {kw['timeout']} not used when opening the port: {a} {k}", case)
        else:
            ok = ("10.1.2.3", kw["port"]) in flat or ("10.1.2.3" in flat and kw["port"] in flat)
            if not ok:
                res.violation("connect-ignores:host-or-port", f"{clsname}: connect used {a} {k}", case)
        if not seen["sleeps"] or abs(seen["sleeps"][0] - kw["reconnect_timeout"]) > 1e-6:
            res.violation("connect-ignores:reconnect_timeout", f"{clsname}: retry delay {seen['sleeps'][:1]} with reconnect_timeout={kw['reconnect_timeout']}", case)
    res.sample({"kind": "connect", "cls": clsname})


def run_port_symlink(job, res):
    """The serial port option is honoured at EVERY connect: configured as a stable symbolic name (/dev/serial/by-id/...) that
    is re-pointed to another device between two attempts, the retry opens what the name points at then."""
    import shutil
    import tempfile
    import threading

    import serial
    import mysensors.gateway_serial as gs
    from ..fakes import Patched, VLoop

    clsname = job["cls"]
    tmp = tempfile.mkdtemp(prefix="vf-c18p-")
    try:
        os.mkdir(os.path.join(tmp, "by-id"))
        for n in ("ttyA", "ttyB"):
            open(os.path.join(tmp, n), "w").close()
        link = os.path.join(tmp, "by-id", "usb-gateway")
        os.symlink(os.path.join("..", "ttyA"), link)
        seen = []

        def note(url):
            seen.append((str(url), os.path.realpath(str(url))))
            if len(seen) == 1:
                os.remove(link)
                os.symlink(os.path.join("..", "ttyB"), link)      # the device re-enumerated; udev re-pointed the name

        case = {"kind": "port-symlink", "cls": clsname}
        res.evals += 1
        try:
            gw = get_class(clsname)(link, reconnect_timeout=0.5)
        except Exception as exc:
            res.violation(f"constructor-raises:{type(exc).__name__}:symlinked-port", f"{clsname}({link!r}) raised {type(exc).__name__}: {exc}", case)
            return
        t = gw.tasks.transport
        if not clsname.startswith("Async"):
            done = threading.Event()
            sleeps = []

            class FakeTime:
                def time(self):
                    return 0.0

                def sleep(self, dt):
                    sleeps.append(dt)
                    if len(sleeps) >= 2:
                        t.disconnect()
                        done.set()

            class SerMod:
                SerialException = serial.SerialException
                threaded = serial.threaded
                tools = getattr(serial, "tools", None)

                def serial_for_url(self, *a, **k):
                    note(a[0] if a else k.get("url"))
                    raise serial.SerialException("nope")

            with Patched((gs, "time", FakeTime()), (gs, "serial", SerMod())):
                t.connect()
                done.wait(5)
        else:
            loop = VLoop()

            class SA:
                async def create_serial_connection(self, *a, **k):
                    note(a[2] if len(a) > 2 else k.get("url"))
                    raise serial.SerialException("nope")

            with Patched((gs, "serial_asyncio", SA())):
                async def main():
                    task = loop.create_task(t.connect())
                    await asyncio.sleep(0.5 * 2.5)
                    task.cancel()
                    try:
                        await task
                    except BaseException:
                        pass
                loop.run_until_complete(main())
            loop.close()
        res.count("symlinked_port_attempts", len(seen))
        res.nontrivial((clsname, "port-symlink"))
        if len(seen) < 2:
            res.notes.append(f"{clsname}: fewer than two connect attempts observed with a symlinked port ({seen})")
            return
        want = os.path.realpath(os.path.join(tmp, "ttyB"))
        if seen[1][1] != want:
            res.violation("connect-ignores:port:symlink-re-pointed", f"{clsname}: port configured as {link!r}, re-pointed to ttyB before the retry; the retry opened {seen[1][0]!r} (= {seen[1][1]!r})", case)
        if str(getattr(gw, "port", link)) != link:
            res.violation("option-not-kept:port", f"{clsname}: gateway.port is {getattr(gw, 'port', None)!r}, configured {link!r}", case)
    finally:
        shutil.rmtree(tmp, ignore_errors=True)


def run_persist_effect(job, res):
    """persistence=True / persistence_file take effect: what the gateway held at stop() is there after a restart,
    with and without an event callback, for every gateway class."""
    import shutil
    import tempfile
    from ..drive import projection, strict
    from ..fakes import VLoop
    from ..persist import FAKE_THREADING

    clsname = job["cls"]
    tmp = tempfile.mkdtemp(prefix="vf-c18-")
    try:
        os.makedirs(os.path.join(tmp, "some_folder"), exist_ok=True)
        combos = [(with_cb, ext, "absolute") for with_cb in (True, False) for ext in ("json", "pickle")]
        # the documented spellings of the file option: a bare file name, the README's 'some_folder/mysensors.pickle' (both
        # relative to the working directory) and no file option at all (default 'mysensors.pickle')
        combos += [(True, "json", "bare"), (False, "pickle", "bare"), (True, "pickle", "subdir"), (True, "pickle", "default")]
        cwd0 = os.getcwd()
        for with_cb, ext, spelling in combos:
            if True:
                os.chdir(tmp)
                path = {"absolute": os.path.join(tmp, f"net-{with_cb}.{ext}"), "bare": f"bare-{with_cb}.{ext}",
                        "subdir": f"some_folder/mysensors.{ext}", "default": None}[spelling]
                kw = {"persistence": True, "protocol_version": "2.0"}
                if path is not None:
                    kw["persistence_file"] = path
                if with_cb:
                    kw["event_callback"] = None
                case = {"kind": "persist-effect", "cls": clsname, "event_callback": with_cb, "ext": ext, "file_spelling": spelling}
                res.evals += 1
                res.count(f"persistence_file_spelling:{spelling}")
                loop = VLoop() if clsname.startswith("Async") else None

                def call(coro_or_none):
                    if loop is not None and coro_or_none is not None:
                        loop.run_until_complete(coro_or_none)
                        loop.settle()

                def tick():
                    if loop is None:
                        live = [t for t in FAKE_THREADING.live() if getattr(t.function, "__name__", "") == "schedule_save"]
                        if live:
                            live[-1].fire()
                    else:
                        loop.advance(10.0)
                        loop.settle()
                try:
                    calls = []
                    gw = construct(clsname, kw, lambda m: calls.append(m))
                    call(gw.start_persistence())
                    gw.logic("1;255;0;0;17;2.0")
                    tick()
                    gw.logic("1;1;0;0;6;t")
                    gw.logic("1;1;1;0;0;20.5")
                    gw.logic("1;255;3;0;0;77")
                    held = strict(projection(gw.sensors))
                    call(gw.stop())
                    for t in FAKE_THREADING.live():
                        t.cancel()
                    gw2 = construct(clsname, kw, lambda m: None)
                    call(gw2.start_persistence())
                    got = strict(projection(gw2.sensors))
                    call(gw2.stop())
                    for t in FAKE_THREADING.live():
                        t.cancel()
                except Exception as exc:
                    res.violation(f"persistence-option-raises:{type(exc).__name__}", f"{clsname} with persistence ({ext}, callback={with_cb}) raised {type(exc).__name__}: {exc}", case)
                    continue
                finally:
                    if loop is not None:
                        loop.close()
                    os.chdir(cwd0)
                res.count("persistence_effects_judged")
                res.nontrivial((clsname, with_cb, ext, spelling))
                if got != held:
                    res.violation(f"option-ignored:persistence:{'with' if with_cb else 'without'}-callback" + ("" if spelling == "absolute" else f":{spelling}-file"),
                                  f"{clsname}(persistence=True, persistence_file={path!r}{', event_callback=...' if with_cb else ''}): the state held at stop() is not restored at the next start", case)
    finally:
        os.chdir(cwd0)
        shutil.rmtree(tmp, ignore_errors=True)
    res.sample({"kind": "persist-effect", "cls": clsname})


def run_real_host(job, res):
    """host / port of the TCP classes take effect: a real device listening on that address gets the connection and its
    request is answered (anomalies must reproduce on two re-runs: wall-clock run)."""
    from .. import realdev as R

    fl, host = job["flavour"], job["host"]
    cls = "TCPGateway" if fl == "threaded" else "AsyncTCPGateway"

    def once():
        try:
            ev, meta = R.run_real("tcp", fl, ["traffic"], rt=0.4, host=host)
        except OSError as exc:
            if exc.errno in (1, 13, 97, 99, 2, 19):
                return None, repr(exc)
            raise
        made = sum(1 for e in ev if e[1] == "MADE")
        accepted = sum(1 for e in ev if e[1] == "ACCEPT")
        answered = any(e[1] == "RX" and b";255;3;0;6;" in e[3] for e in ev)
        return (made, accepted, answered), None

    r, un = once()
    if un:
        res.count("real_device_unavailable")
        res.notes.append(f"real-host sample unavailable here ({host}): {un}")
        return
    res.evals += 1
    res.count("real_host_connections")
    res.count(f"real_host_connections[{'ipv6' if ':' in host else 'ipv4'}]")
    res.nontrivial(("real-host", fl, host))
    if not (r[0] >= 1 and r[1] >= 1 and r[2]):
        again = [once()[0] for _ in range(2)]
        if all(a is not None and not (a[0] >= 1 and a[1] >= 1 and a[2]) for a in again):
            res.violation(f"option-ignored:host:{'ipv6' if ':' in host else 'ipv4'}:{fl}",
                          f"{cls}({host!r}, port=<device port>): on_conn_made calls {r[0]}, connections accepted by the device {r[1]}, request answered {r[2]}",
                          {"kind": "real-host", "flavour": fl, "host": host})
        else:
            res.count("real_anomalies_not_reproduced")


def run(job):
    res = Result()
    if job["kind"] == "real-host":
        run_real_host(job, res)
        return res
    if job["kind"] == "port-symlink":
        run_port_symlink(job, res)
        return res
    if job["kind"] == "persist-effect":
        run_persist_effect(job, res)
        return res
    {"subsets": run_subsets, "readme": run_readme, "gwversions": run_gwversions, "nodeversions": run_nodeversions,
     "connect": run_connect}[job["kind"]](job, res)
    return res


def replay(case):
    res = Result()
    k = case["kind"]
    if k == "real-host":
        r = run({"kind": k, "flavour": case["flavour"], "host": case["host"]})
    elif k == "persist-effect" or k == "port-symlink":
        r = run({"kind": k, "cls": case["cls"]})
    elif k == "subsets" or k == "connect":
        r = run({"kind": k, "cls": case["cls"], "seed": 0})
    elif k == "readme":
        r = run({"kind": "readme"})
    elif k == "gwversion":
        r = Result()
        for p in range(4):
            x = run({"kind": "gwversions", "part": p})
            r.violations += x.violations
    else:
        r = Result()
        for p in range(4):
            x = run({"kind": "nodeversions", "part": p})
            r.violations += x.violations
    for v in r.violations:
        res.violation(v["sig"], v["what"], v["case"])
    return res


def finish(agg, tier):
    c = agg["counters"]
    return {
        "rule": "six gateway classes x all 2^7 subsets of their documented keyword options x 2 value sets (constructed for real; "
                "each option then observed: transport.timeout / reconnect_timeout, prefixes and retain on the next publish and on "
                "subscriptions, port/baud/server_address, persistence object and file, protocol tables via distinguishing frames, "
                "event callback on the next accepted message; persistence judged by its effect: start_persistence, messages, a save tick, "
                "more messages, stop, restart - with and without an event callback, json and pickle, every class); first connect attempt and retry delay under fake serial / socket / "
                "asyncio connect; README constructor snippets executed literally; version strings major 0..3 x minor 0..12 x patch "
                "{absent,0..3} for the gateway and for the version a node presents, judged against numeric comparison - by distinguishing frames and, for the gateway, by running one fixed 32-step conversation (presentations, heartbeat, pre sleep notification, controller commands, requests, unknown node, id request, discover) against the gateway configured with the string and against one configured with the canonical version it must select, sync and asyncio alternating, and comparing every send, callback and the final node table. distinct = "
                "(class, option subset, value set) / version string.",
        "exhaustive": True,
        "floors": [("constructed", c.get("constructed", 0), 1200), ("gateway_versions_judged", c.get("gateway_versions_judged", 0), 260),
                   ("gateway_version_conversations_compared", c.get("gateway_version_conversations_compared", 0), 250),
                   ("node_versions_judged", c.get("node_versions_judged", 0), 200), ("readme_snippets_run", c.get("readme_snippets_run", 0), 2),
                   ("connect_attempts_observed", c.get("connect_attempts_observed", 0), 8), ("symlinked_port_attempts", c.get("symlinked_port_attempts", 0), 4), ("mqtt_publish_checks", c.get("mqtt_publish_checks", 0), 200),
                   ("persistence_file_spelling:bare", c.get("persistence_file_spelling:bare", 0), 12), ("persistence_file_spelling:default", c.get("persistence_file_spelling:default", 0), 6)]
                  + ([] if c.get("real_device_unavailable") else [("real_host_connections[ipv6]", c.get("real_host_connections[ipv6]", 0), 2),
                                                                  ("real_host_connections[ipv4]", c.get("real_host_connections[ipv4]", 0), 2)]) + [
                   ("persistence_effects_judged", c.get("persistence_effects_judged", 0), 24)],
        "assumptions": ["documented options = README + constructor signatures; 2.0 and 2.1 tables are behaviourally identical and "
                        "are judged as one class; 'v2.2', '2.2.0-rc1', '2.' and ' 2.0' are executed but their table is not judged; numbers and major-only strings (2, '2', 3, 22) are judged by numeric comparison"],
        "show": ["constructed", "gateway_versions_judged", "node_versions_judged", "readme_snippets_run", "connect_attempts_observed", "real_host_connections"],
    }
