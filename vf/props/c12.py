"""C12 - saving replaces the persistence file atomically (crash / fault enumeration)."""
import errno
import os
import shutil
import subprocess
import sys
import tempfile

from .. import core
from ..core import Result

ID = "C12"
LEVEL = "fault_enumeration"
TIMEOUT = {"quick": 900, "thorough": 5400}
PRIORS = ["none", "good", "good+bak", "good+tmp", "good+bak+tmp", "good+longtmp"]
ERRNOS = [errno.EIO, errno.ENOSPC, errno.EACCES]
VERSION = "2.2"


def jobs(tier, seed):
    q = tier == "quick"
    out = []
    for ext in ("json", "pickle"):
        for prior in PRIORS:
            for size in (("small",) if q else ("small", "large")):
                for mode in ("crash", "fail"):
                    out.append({"kind": "shim", "ext": ext, "prior": prior, "size": size, "mode": mode, "seed": seed})
                    if size == "small" and prior in ("good", "good+bak", "none"):
                        out.append({"kind": "shim", "ext": ext, "prior": prior, "size": size, "mode": mode, "seed": seed, "layout": "symlink-file"})
    for ext in ("json", "pickle"):
        for prior in (("good", "none") if q else PRIORS):
            for mode in ("kill", "error"):
                out.append({"kind": "strace", "ext": ext, "prior": prior, "mode": mode, "seed": seed, "size": "small"})
    for ext in ("json", "pickle"):
        for prior in ("good", "good+bak"):
            out.append({"kind": "concurrent", "ext": ext, "prior": prior, "seed": seed, "sample": 40 if q else 0})
        out.append({"kind": "concurrent-two", "ext": ext, "seed": seed})
    return out


# ---------------------------------------------------------------------------
def lines_for(nn, tag):
    L = []
    for n in range(1, nn + 1):
        L += [f"{n};255;0;0;17;{VERSION}", f"{n};255;3;0;11;{tag}-é中-{n}", f"{n};255;3;0;0;{(n * 7 + len(tag)) % 101}",
              f"{n};0;0;0;6;{tag} child", f"{n};0;1;0;0;2{n % 10}.5"]
    return L


def build(lines, path=None):
    from ..drive import Engine

    eng = Engine("sync", VERSION, persistence_file=path)
    for l in lines:
        eng.feed(l)
    return eng


def state_bytes(lines, ext, tmp):
    from mysensors.persistence import Persistence

    eng = build(lines)
    p = os.path.join(tmp, f"mk{os.getpid()}.{ext}")
    Persistence(eng.gw.sensors, lambda s: (lambda: None), persistence_file=p).save_sensors()
    with open(p, "rb") as fh:
        data = fh.read()
    os.remove(p)
    return data


def snapshot_dir(d):
    """relative path -> bytes, or ('symlink', target) for a symbolic link."""
    snap = {}
    for root, dirs, files in os.walk(d):
        for f in files + [x for x in dirs if os.path.islink(os.path.join(root, x))]:
            full = os.path.join(root, f)
            rel = os.path.relpath(full, d)
            if os.path.islink(full):
                snap[rel] = ("symlink", os.readlink(full))
            else:
                with open(full, "rb") as fh:
                    snap[rel] = fh.read()
    return snap


def materialise(d, snap):
    for root, dirs, files in os.walk(d, topdown=False):
        for f in files:
            os.remove(os.path.join(root, f))
        for x in dirs:
            full = os.path.join(root, x)
            if os.path.islink(full):
                os.remove(full)
    for sub in LAYOUT_DIRS:
        os.makedirs(os.path.join(d, sub), exist_ok=True)
    for f, data in snap.items():
        full = os.path.join(d, f)
        os.makedirs(os.path.dirname(full), exist_ok=True)
        if isinstance(data, tuple):
            os.symlink(data[1], full)
        else:
            with open(full, "wb") as fh:
                fh.write(data)


LAYOUT_DIRS = ("real", "link")


def layout_names(ext, layout):
    """(configured path, main, bak, tmp) relative to the scratch directory. 'symlink-file': the configured path is a
    symbolic link into another directory (the library writes the temp file beside the real file and keeps the backup beside
    the configured path)."""
    main, bak, tmp = names(ext)
    if layout == "symlink-file":
        return os.path.join("link", main), os.path.join("real", main), os.path.join("link", bak), os.path.join("real", tmp)
    return main, main, bak, tmp


def names(ext):
    return f"net.{ext}", f"net.{ext}.bak", f"net.tmp.{ext}"


def setup_prior(d, ext, prior, dataA, dataOld, layout="plain"):
    cfg, main, bak, tmp = layout_names(ext, layout)
    snap = {}
    if layout == "symlink-file":
        snap[cfg] = ("symlink", os.path.join("..", main))
    if prior != "none":
        snap[main] = dataA
    if "bak" in prior:
        snap[bak] = dataOld
    if "longtmp" in prior:
        snap[tmp] = dataOld + dataA + dataOld       # leftover of an interrupted save of a much bigger state
    elif "tmp" in prior:
        snap[tmp] = dataOld[: len(dataOld) // 2]
    materialise(d, snap)
    return snap


def judge_dir(res, d, ext, allowed, case, flavour):
    """Start-up load must give one of the allowed complete states; one more save + load must work."""
    from ..drive import projection, strict
    from ..persist import PGateway

    path = os.path.join(d, layout_names(ext, case.get("layout", "plain"))[0])
    pg = PGateway(flavour, VERSION, path)
    try:
        pg.start()
    except Exception as exc:
        pg.close()
        res.violation(f"load-raises:{type(exc).__name__}:{case['mode']}:{case['opname']}", f"start-up load after {case['desc']} raised {type(exc).__name__}: {exc}", case)
        return
    got = strict(projection(pg.gw.sensors))
    res.count("loads_judged")
    which = [name for name, s in allowed if s == got]
    if not which:
        n = len(pg.gw.sensors)
        res.violation(f"neither-old-nor-new:{case['mode']}:{case['opname']}:{case.get('loss', 'asis')}",
                      f"after {case['desc']}: loaded state has {n} nodes and is neither the old nor the new complete state", case)
    else:
        res.count("loaded_" + which[0])
    try:
        pg.eng.feed(f"77;255;0;0;17;{VERSION}")
        pg.eng.feed("77;255;3;0;11;after")
        want = strict(projection(pg.gw.sensors))
        pg.tick()
        pg.stop()
        errs = list(pg.tick_errors)
        pg.close()
        if errs:
            raise errs[0]
        pg2 = PGateway("sync", VERSION, path)
        pg2.start()
        got2 = strict(projection(pg2.gw.sensors))
        pg2.stop()
        pg2.close()
        if got2 != want:
            res.violation(f"next-save-not-effective:{case['mode']}:{case['opname']}", f"after {case['desc']}: the next save + load does not yield the then-current state", case)
        res.count("next_saves_judged")
    except Exception as exc:
        res.violation(f"next-save-raises:{type(exc).__name__}:{case['mode']}:{case['opname']}", f"after {case['desc']}: the next save raised {type(exc).__name__}: {exc}", case)


def run_shim(job, res):
    from ..drive import projection, strict
    from ..fsshim import Shim

    ext, prior, size, mode = job["ext"], job["prior"], job["size"], job["mode"]
    layout = job.get("layout", "plain")
    rng = core.rng_for(ID, job["seed"], ext, prior, size, mode, layout)
    nn = 2 if size == "small" else 30
    work = tempfile.mkdtemp(prefix="vf-c12-")
    d = os.path.join(work, "dir")
    os.mkdir(d)
    try:
        LA, LB, LO = lines_for(nn, "A"), lines_for(nn, "A") + lines_for(1, "B")[:0] + [f"{nn + 1};255;0;0;17;{VERSION}", "1;0;1;0;0;99.9"], lines_for(max(1, nn - 1), "Old")
        dataA, dataOld = state_bytes(LA, ext, work), state_bytes(LO, ext, work)
        sA = strict(projection(build(LA).gw.sensors)) if prior != "none" else strict({})
        sB = strict(projection(build(LB).gw.sensors))
        allowed = [("old", sA), ("new", sB)]
        path = os.path.join(d, layout_names(ext, layout)[0])
        # dry run: the op sequence of this save on this prior configuration
        setup_prior(d, ext, prior, dataA, dataOld, layout)
        eng = build(LB, path)
        with Shim("count") as sh:
            eng.gw.tasks.persistence.save_sensors()
        ops = list(sh.ops)
        N = len(ops)
        res.add_set("op_sequences", (ext, prior, size, tuple(sorted({o[0] for o in ops})), N))
        res.count("ops_in_dry_runs", N)
        stride = 1 if (size == "small" or N < 400) else max(1, N // 300)
        points = sorted(set(range(0, N, stride)) | {i for i, o in enumerate(ops) if o[0] != "write"} | {N})
        if mode == "crash":
            for k in points:
                setup_prior(d, ext, prior, dataA, dataOld, layout)
                logp = os.path.join(work, "ops.log")
                pid = os.fork()
                if pid == 0:
                    try:
                        fd = os.open(logp, os.O_WRONLY | os.O_CREAT | os.O_TRUNC)
                        eng = build(LB, path)
                        Shim("crash", at=k, logfd=fd).install()
                        eng.gw.tasks.persistence.save_sensors()
                    finally:
                        os._exit(0)
                _, status = os.waitpid(pid, 0)
                code = os.waitstatus_to_exitcode(status)
                opname = ops[k][0] if k < N else "after-last"
                if (code == 77) != (k < N):
                    res.notes.append(f"crash child exit {code} at k={k}/{N}")
                    res.count("crash_child_unexpected_exit")
                    continue
                snap = snapshot_dir(d)
                with open(logp) as fh:
                    done = [l.split(" ", 2) for l in fh.read().splitlines()][: k]
                res.evals += 1
                res.count("crash_points")
                case = {"kind": "shim", "ext": ext, "prior": prior, "size": size, "mode": "crash", "k": k, "opname": opname, "layout": layout,
                        "desc": f"a crash before op {k}/{N} ({opname}) of a {ext} save over prior '{prior}'"}
                judge_dir(res, d, ext, allowed, case, "sync" if k % 2 else "async")
                res.nontrivial((ext, prior, size, "crash", k, "asis", layout))
                res.count(f"layout:{layout}")
                # unsynced data lost: files written but not fsynced afterwards
                unsynced = unsynced_files(done, ext)
                for fname in unsynced:
                    if fname not in snap:
                        continue
                    for loss in ("zero-length", "prefix"):
                        v = dict(snap)
                        v[fname] = b"" if loss == "zero-length" else snap[fname][: rng.randint(0, max(0, len(snap[fname]) - 1))]
                        materialise(d, v)
                        c2 = dict(case, loss=loss, desc=case["desc"] + f" with unsynced data of {fname} lost ({loss})")
                        judge_dir(res, d, ext, allowed, c2, "sync")
                        res.evals += 1
                        res.count("lossy_variants")
                        res.nontrivial((ext, prior, size, "crash", k, loss, fname))
        else:
            for k in points:
                if k >= N:
                    continue
                errs = list(ERRNOS if ops[k][0] != "write" or k % 7 == 0 else [ERRNOS[k % 3]])
                if ops[k][0] == "write":
                    errs.append("short")        # the write is accepted only in part (disk full, file size limit)
                for err in errs:
                    setup_prior(d, ext, prior, dataA, dataOld, layout)
                    eng = build(LB, path)
                    if err == "short":
                        sh = Shim("short", at=k).install()
                        err = errno.ENOSPC
                        res.count("short_writes")
                    else:
                        sh = Shim("fail", at=k, err=err).install()
                    raised = None
                    try:
                        eng.gw.tasks.persistence.save_sensors()
                    except Exception as exc:
                        raised = exc
                    finally:
                        sh.uninstall()
                    opname = ops[k][0]
                    res.evals += 1
                    res.count("failing_ops")
                    if sh.fired:
                        res.count("faults_fired")
                    case = {"kind": "shim", "ext": ext, "prior": prior, "size": size, "mode": "fail", "k": k, "opname": opname, "layout": layout,
                            "errno": errno.errorcode[err],
                            "desc": f"{errno.errorcode[err]} from op {k}/{N} ({opname}) of a {ext} save over prior '{prior}'"}
                    snap = snapshot_dir(d)
                    need = getattr(eng.gw.tasks.persistence, "need_save", None)
                    judge_dir(res, d, ext, allowed, case, "sync" if k % 2 else "async")
                    res.nontrivial((ext, prior, size, "fail", k, err))
                    # the surviving gateway retries: must succeed and persist the new state
                    materialise(d, snap)
                    if raised is not None and need is False:
                        res.violation(f"failed-save-marked-saved:{opname}", f"after {case['desc']} the state is marked saved", case)
                    try:
                        eng.gw.tasks.persistence.need_save = True
                        eng.gw.tasks.persistence.save_sensors()
                        from ..persist import PGateway
                        pg = PGateway("sync", VERSION, path)
                        pg.start()
                        got = strict(projection(pg.gw.sensors))
                        pg.stop()
                        pg.close()
                        if got != sB:
                            res.violation(f"retry-not-effective:{opname}", f"after {case['desc']} a clean retry does not persist the new state", case)
                        res.count("retries_judged")
                    except Exception as exc:
                        res.violation(f"retry-raises:{type(exc).__name__}:{opname}", f"after {case['desc']} the retried save raised {type(exc).__name__}: {exc}", case)
        res.sample({"kind": "shim", "ext": ext, "prior": prior, "size": size, "mode": mode, "ops": N,
                    "op_kinds": [o[0] for o in ops if o[0] != "write"], "writes": sum(1 for o in ops if o[0] == "write")})
    finally:
        shutil.rmtree(work, ignore_errors=True)


def unsynced_files(done_ops, ext):
    """Current names of files whose last write/flush was not followed by an fsync (from the op log)."""
    main, bak, tmpn = names(ext)
    last_write, last_sync, cur = {}, {}, {}
    for idx, name, arg in done_ops:
        idx = int(idx)
        if name in ("write", "flush", "open"):
            last_write[arg] = idx
            cur.setdefault(arg, arg)
        elif name == "fsync":
            last_sync[arg] = idx
        elif name in ("rename", "replace") and "->" in arg:
            a, b = arg.split("->")
            for orig, now in list(cur.items()):
                if now == a:
                    cur[orig] = b
    return sorted({cur[f] for f in last_write if last_sync.get(f, -1) < last_write[f]})


# ---------------------------------------------------------------------------
DRIVER = r'''
import sys, os, logging
sys.path.insert(0, sys.argv[1]); sys.path.insert(1, sys.argv[2])
logging.disable(logging.CRITICAL)
from vf.props.c12 import build, lines_for, VERSION
path, nn = sys.argv[3], int(sys.argv[4])
LB = lines_for(nn, "A") + [f"{nn + 1};255;0;0;17;{VERSION}", "1;0;1;0;0;99.9"]
eng = build(LB, path)
sys.stdout.write("READY\n"); sys.stdout.flush()
try:
    eng.gw.tasks.persistence.save_sensors()
    sys.stdout.write("SAVED\n")
except OSError as exc:
    sys.stdout.write("OSERROR %s\n" % exc.errno)
    try:
        eng.gw.tasks.persistence.save_sensors()
        sys.stdout.write("RETRY-OK\n")
    except Exception as exc2:
        sys.stdout.write("RETRY-FAILED %r\n" % (exc2,))
sys.stdout.flush()
'''
SYSCALLS = "openat,write,fsync,fdatasync,close,rename,renameat,renameat2,unlink,unlinkat"


def strace_run(work, d, ext, inject, nn):
    main, bak, tmpn = names(ext)
    drv = os.path.join(work, "driver.py")
    if not os.path.exists(drv):
        with open(drv, "w") as fh:
            fh.write(DRIVER)
    log = os.path.join(work, "strace.log")
    cmd = ["strace", "-f", "-o", log, "-P", os.path.join(d, main), "-P", os.path.join(d, bak), "-P", os.path.join(d, tmpn),
           "-e", f"trace={SYSCALLS}"]
    if inject:
        cmd += ["-e", f"inject={inject}"]
    cmd += [core.PY, "-B", drv, core.REPO, core.VERIF, os.path.join(d, main), str(nn)]
    env = dict(os.environ, VERIF_REPO=core.REPO, PYTHONDONTWRITEBYTECODE="1")
    p = subprocess.run(cmd, capture_output=True, text=True, timeout=120, env=env)
    calls = []
    if os.path.exists(log):
        with open(log) as fh:
            for l in fh:
                parts = l.split(None, 1)
                if len(parts) == 2 and "(" in parts[1]:
                    calls.append(parts[1].split("(", 1)[0])
    return p, calls


def run_strace(job, res):
    from ..drive import projection, strict

    ext, prior, mode = job["ext"], job["prior"], job["mode"]
    if shutil.which("strace") is None:
        res.notes.append("strace not available: system-call half not run")
        return
    nn = 2
    work = tempfile.mkdtemp(prefix="vf-c12s-")
    d = os.path.join(work, "dir")
    os.mkdir(d)
    try:
        LA, LO = lines_for(nn, "A"), lines_for(1, "Old")
        LB = LA + [f"{nn + 1};255;0;0;17;{VERSION}", "1;0;1;0;0;99.9"]
        dataA, dataOld = state_bytes(LA, ext, work), state_bytes(LO, ext, work)
        sA = strict(projection(build(LA).gw.sensors)) if prior != "none" else strict({})
        sB = strict(projection(build(LB).gw.sensors))
        allowed = [("old", sA), ("new", sB)]
        setup_prior(d, ext, prior, dataA, dataOld)
        p, calls = strace_run(work, d, ext, None, nn)
        if "SAVED" not in p.stdout or not calls:
            res.notes.append(f"strace dry run unusable (ptrace not permitted?): rc={p.returncode} {p.stderr[-200:]}")
            res.count("strace_unusable")
            return
        res.add_set("syscall_sequences", (ext, prior, tuple(calls)))
        per = {}
        for c in calls:
            per[c] = per.get(c, 0) + 1
        for sc, cnt in sorted(per.items()):
            for k in range(1, cnt + 1):
                setup_prior(d, ext, prior, dataA, dataOld)
                if mode == "kill":
                    inj = f"{sc}:signal=SIGKILL:when={k}"
                else:
                    if sc in ("close",):
                        continue
                    inj = f"{sc}:error={['EIO', 'ENOSPC', 'EACCES'][k % 3]}:when={k}"
                p, _ = strace_run(work, d, ext, inj, nn)
                res.evals += 1
                res.count("strace_runs")
                case = {"kind": "strace", "ext": ext, "prior": prior, "mode": mode, "opname": sc, "k": k, "inject": inj,
                        "desc": f"strace inject {inj} into a real saving process ({ext}, prior '{prior}')"}
                if mode == "kill":
                    if p.returncode not in (137, -9) and "SAVED" in p.stdout:
                        res.count("strace_kill_not_delivered")
                        continue
                    res.count("strace_kills")
                else:
                    if "OSERROR" in p.stdout:
                        res.count("strace_errors_seen_by_python")
                        if "RETRY-FAILED" in p.stdout:
                            res.violation(f"retry-raises:strace:{sc}", f"{case['desc']}: the retried save failed: {p.stdout[-200:]}", case)
                    elif "SAVED" not in p.stdout:
                        res.violation(f"save-raises-non-oserror:strace:{sc}", f"{case['desc']}: {p.stdout[-200:]} {p.stderr[-300:]}", case)
                        continue
                judge_dir(res, d, ext, allowed if "RETRY-OK" not in p.stdout else [("new", sB)], case, "sync")
                res.nontrivial((ext, prior, mode, sc, k))
        res.sample({"kind": "strace", "ext": ext, "prior": prior, "mode": mode, "syscalls": calls})
    finally:
        shutil.rmtree(work, ignore_errors=True)



# ---------------------------------------------------------------------------
# Two saves of the same Persistence from two real threads (the timer's scheduled save and the save of stop(); the two
# executor jobs of the asyncio flavour). Every file operation is a scheduling point; the directory as it is between
# two operations is what a crash at that instant leaves behind.
class TwoThreadSched:
    WATCHDOG = 20.0
    SETTLE = 0.03

    def __init__(self):
        import threading

        self.cv = threading.Condition()
        self.parked = {}
        self.count = {}
        self.granted = None
        self.inflight = None
        self.finished = set()
        self.blocked = set()
        self.last_event = 0.0
        self.trace = []
        self.aborted = False

    def _who(self):
        import threading

        n = threading.current_thread().name
        return n if n in ("T1", "T2") else None

    def on_op(self, name, path):
        import time

        who = self._who()
        if who is None:
            return
        with self.cv:
            if self.inflight == who:
                self.inflight = None
            self.parked[who] = (self.count.get(who, 0), name, os.path.basename(str(path)))
            self.blocked.discard(who)
            self.last_event = time.monotonic()
            self.cv.notify_all()
            t0 = time.monotonic()
            while self.granted != who:
                self.cv.wait(0.2)
                if self.aborted or time.monotonic() - t0 > self.WATCHDOG:
                    self.aborted = True
                    raise SystemExit("scheduler watchdog")
            self.granted = None
            self.count[who] = self.count.get(who, 0) + 1

    def on_done(self):
        import time

        who = self._who()
        if who is None:
            return
        with self.cv:
            if self.inflight == who:
                self.inflight = None
            self.last_event = time.monotonic()
            self.cv.notify_all()

    def finish(self, who):
        import time

        with self.cv:
            if self.inflight == who:
                self.inflight = None
            self.finished.add(who)
            self.last_event = time.monotonic()
            self.cv.notify_all()

    def quiesce(self, live):
        """Wait until no operation is in flight and every live thread is parked, finished or blocked (on a lock held by
        a parked thread). Returns the parked threads; raises TimeoutError when nothing can move any more."""
        import time

        t0 = time.monotonic()
        with self.cv:
            while True:
                if self.inflight is None:
                    rest = [t for t in live if t not in self.finished and t not in self.parked]
                    if not rest:
                        return dict(self.parked)
                    undecided = [t for t in rest if t not in self.blocked]
                    if undecided and time.monotonic() - self.last_event > self.SETTLE:
                        self.blocked.update(undecided)
                        undecided = []
                    if not undecided and self.parked:
                        return dict(self.parked)
                if self.aborted or time.monotonic() - t0 > self.WATCHDOG:
                    self.aborted = True
                    self.cv.notify_all()
                    raise TimeoutError("no thread can move")
                self.cv.wait(0.005)

    def grant(self, who, recheck):
        with self.cv:
            self.trace.append((who,) + self.parked.pop(who))
            if recheck:
                self.blocked.clear()     # the operation may release what the other thread waits for
            self.inflight = who
            self.granted = who
            self.cv.notify_all()


def run_concurrent(job, res):
    """Schedules with at most two preemptions: T2 (a state change, then its save) starts when T1's save is about to issue
    its j-th operation; T2 runs until it is about to issue its m-th operation; T1 runs to its end; T2 runs to its end."""
    import hashlib
    import threading
    import time

    from ..drive import projection, strict
    from ..fsshim import Shim
    from ..persist import PGateway

    ext, prior = job["ext"], job["prior"]
    rng = core.rng_for(ID, job["seed"], "concurrent", ext, prior)
    work = tempfile.mkdtemp(prefix="vf-c12c-")
    d = os.path.join(work, "dir")
    jd = os.path.join(work, "judge")
    os.mkdir(d)
    os.mkdir(jd)
    CHANGE = "1;0;1;0;0;77.7"
    try:
        LA = lines_for(2, "A")
        LB = lines_for(2, "A") + [f"3;255;0;0;17;{VERSION}", "1;0;1;0;0;99.9"]
        LO = lines_for(1, "Old")
        dataA, dataOld = state_bytes(LA, ext, work), state_bytes(LO, ext, work)
        sA, sB, sC = (strict(projection(build(L).gw.sensors)) for L in (LA, LB, LB + [CHANGE]))
        path = os.path.join(d, names(ext)[0])
        jpath = os.path.join(jd, names(ext)[0])
        # dry run of one save: which operations there are
        setup_prior(d, ext, prior, dataA, dataOld)
        eng = build(LB, path)
        with Shim("count") as sh:
            eng.gw.tasks.persistence.save_sensors()
        ops = list(sh.ops)
        nonwrite = [i for i, o in enumerate(ops) if o[0] != "write"]
        writes = [i for i, o in enumerate(ops) if o[0] == "write"]
        gates = sorted(set(nonwrite + writes[len(writes) // 2:len(writes) // 2 + 1] + [len(ops)]))
        stops = sorted(set(nonwrite + [len(ops) + 5]))
        pairs = [(j, m) for j in gates for m in stops]
        if job.get("sample"):
            rng.shuffle(pairs)
            commit = [i for i in nonwrite if ops[i][0] in ("rename", "replace", "remove", "link")]
            must = [(j, m) for (j, m) in pairs if j in commit[-2:] + [len(ops)] and m in commit]
            pairs = must + [p for p in pairs if p not in must][: max(0, job["sample"] - len(must))]
        if job.get("only"):
            pairs = [tuple(x) for x in job["only"]]
        verdicts = {}

        def judge(snap, completed, case):
            key = hashlib.sha1(repr(sorted((k, v if isinstance(v, tuple) else hashlib.sha1(v).hexdigest()) for k, v in snap.items())).encode()).hexdigest()
            if key not in verdicts:
                materialise(jd, snap)
                pg = PGateway("sync", VERSION, jpath)
                try:
                    pg.start()
                    verdicts[key] = ("state", strict(projection(pg.gw.sensors)), sorted(snap))
                except Exception as exc:
                    verdicts[key] = ("raises", f"{type(exc).__name__}: {exc}", sorted(snap))
                finally:
                    pg.close()
                res.count("concurrent_distinct_directories_loaded")
            kind, got, files = verdicts[key]
            res.count("concurrent_crash_instants_judged")
            if kind == "raises":
                res.violation(f"concurrent-saves:load-raises:{case['at']}", f"{case['desc']}: a start-up load of the directory as it is then ({files}) raised {got}", case)
                return
            # once a save has returned, what it saved (or something newer) is what a crash must leave
            allowed = [("old", sA), ("first", sB), ("second", sC)]
            if "T2" in completed:
                allowed = allowed[2:]
            elif "T1" in completed:
                allowed = allowed[1:]
            if not any(got == s_ for _n, s_ in allowed):
                what = "an EMPTY table" if got == strict({}) else next((f"the {n} state" for n, s_ in [("old", sA), ("first", sB), ("second", sC)] if s_ == got), "a state that was never saved")
                res.violation(f"concurrent-saves:crash-leaves-wrong-state:{case['at']}:{'empty' if got == strict({}) else 'other'}",
                              f"{case['desc']}: a crash at that instant leaves {files}; the start-up load yields {what}, allowed: {[n for n, _ in allowed]}", case)

        for (j, m) in pairs:
            setup_prior(d, ext, prior, dataA, dataOld)
            eng = build(LB, path)
            pers = eng.gw.tasks.persistence
            sched = TwoThreadSched()
            sh = Shim("count")
            sh.on_op, sh.on_done = sched.on_op, sched.on_done
            sh.install()
            errors = {}
            completed = []

            def t1():
                try:
                    pers.save_sensors()
                    completed.append("T1")
                except BaseException as exc:
                    errors["T1"] = exc
                finally:
                    sched.finish("T1")

            def t2():
                try:
                    eng.feed(CHANGE)
                    pers.save_sensors()
                    completed.append("T2")
                except BaseException as exc:
                    errors["T2"] = exc
                finally:
                    sched.finish("T2")

            th1 = threading.Thread(target=t1, name="T1", daemon=True)
            th2 = threading.Thread(target=t2, name="T2", daemon=True)
            case = {"kind": "concurrent", "ext": ext, "prior": prior, "mode": "concurrent", "j": j, "m": m, "opname": "two-saves"}
            th1.start()
            live = ["T1"]
            phase = 0          # 0: T1 alone up to j; 1: T2 preferred up to m; 2: T1 preferred; 3: T2
            stuck = None
            try:
                while True:
                    parked = sched.quiesce(live)
                    if phase == 0 and ("T1" in sched.finished or parked.get("T1", (0,))[0] >= j):
                        th2.start()
                        live = ["T1", "T2"]
                        phase = 1
                        continue
                    if not parked:
                        break
                    last = sched.trace[-1] if sched.trace else None
                    if last is None or last[2] != "write":
                        desc = (f"two {ext} saves over prior '{prior}' (second starts before op {j} of the first, is preempted before its op {m}); after "
                                + (f"{last[0]}'s {last[2]} {last[3]}" if last else "nothing yet") + f" ({len(sched.trace)} operations issued)")
                        judge(snapshot_dir(d), list(completed), dict(case, at=(f"after-{last[2]}" if last else "start"), desc=desc, trace_len=len(sched.trace)))
                    if phase == 1 and ("T2" in sched.finished or ("T2" in parked and parked["T2"][0] >= m)):
                        phase = 2
                    if phase == 2 and "T1" in sched.finished:
                        phase = 3
                    prefer = {0: "T1", 1: "T2", 2: "T1", 3: "T2"}[phase]
                    who = prefer if prefer in parked else sorted(parked)[0]
                    sched.grant(who, recheck=parked[who][1] != "write")
            except TimeoutError:
                stuck = f"threads parked {sched.parked}, finished {sorted(sched.finished)}"
            finally:
                for th in (th1, th2):
                    if th.ident is not None:
                        th.join(5)
                sh.uninstall()
            res.evals += 1
            res.count("concurrent_schedules")
            res.add_set("concurrent_interleavings", hashlib.sha1(repr([(t[0], t[2]) for t in sched.trace if t[2] != "write"]).encode()).hexdigest()[:10])
            if stuck or th1.is_alive() or th2.is_alive():
                res.count("concurrent_schedules_stuck")
                res.notes.append(f"concurrent schedule ({ext},{prior},{j},{m}) did not finish: {stuck}")
                continue
            if any(t[0] == "T2" for t in sched.trace) and any(t[0] == "T1" for t in sched.trace[next(i for i, t in enumerate(sched.trace) if t[0] == "T2"):]):
                res.count("concurrent_schedules_with_overlapping_operations")
            for who, exc in errors.items():
                res.violation(f"concurrent-saves:save-raises:{type(exc).__name__}", f"two {ext} saves over prior '{prior}' (j={j}, m={m}): {who}'s save_sensors() raised {type(exc).__name__}: {exc}", dict(case, at="end"))
            if not errors:
                desc = f"two {ext} saves over prior '{prior}' (j={j}, m={m}) both returned"
                judge(snapshot_dir(d), ["T1", "T2"], dict(case, at="end", desc=desc))
            res.nontrivial((ext, prior, "concurrent", j, m))
        res.sample({"kind": "concurrent", "ext": ext, "prior": prior, "ops_per_save": len(ops), "gates": len(gates), "stops": len(stops), "schedules": len(pairs)})
    finally:
        shutil.rmtree(work, ignore_errors=True)


def run_concurrent_two(job, res):
    """Two gateways of one process, each with a persistence file of its own in the same directory, saving at the same
    time from two real threads: every file operation is a scheduling point, all schedules with at most two preemptions."""
    import hashlib
    import threading

    from ..drive import projection, strict
    from ..fsshim import Shim
    from ..persist import PGateway

    ext = job["ext"]
    work = tempfile.mkdtemp(prefix="vf-c12t-")
    d = os.path.join(work, "dir")
    jd = os.path.join(work, "judge")
    os.mkdir(d)
    os.mkdir(jd)
    try:
        LA1, LA2 = lines_for(2, "A"), lines_for(2, "A") + [f"3;255;0;0;17;{VERSION}", "1;0;1;0;0;99.9"]
        LB1, LB2 = lines_for(1, "Other"), lines_for(1, "Other") + ["1;0;1;0;0;55.5", f"9;255;0;0;17;{VERSION}"]
        dA, dB = state_bytes(LA1, ext, work), state_bytes(LB1, ext, work)
        sA1, sA2, sB1, sB2 = (strict(projection(build(L).gw.sensors)) for L in (LA1, LA2, LB1, LB2))
        nameA, nameB = f"net.{ext}", f"other.{ext}"
        verdicts = {}

        def load(snap, name):
            key = (name, hashlib.sha1(repr(sorted((k, v if isinstance(v, tuple) else hashlib.sha1(v).hexdigest()) for k, v in snap.items())).encode()).hexdigest())
            if key not in verdicts:
                materialise(jd, snap)
                pg = PGateway("sync", VERSION, os.path.join(jd, name))
                try:
                    pg.start()
                    verdicts[key] = ("state", strict(projection(pg.gw.sensors)))
                except Exception as exc:
                    verdicts[key] = ("raises", f"{type(exc).__name__}: {exc}")
                finally:
                    pg.close()
                res.count("concurrent_distinct_directories_loaded")
            return verdicts[key]

        def judge(snap, completed, case):
            res.count("concurrent_crash_instants_judged")
            for who, name, old, new in (("T1", nameA, sA1, sA2), ("T2", nameB, sB1, sB2)):
                kind, got = load(snap, name)
                allowed = [new] if who in completed else [old, new]
                if kind == "raises":
                    res.violation(f"two-gateways-saving:load-raises:{case['at']}", f"{case['desc']}: loading {name} raised {got}", case)
                elif got not in allowed:
                    whose = "the OTHER gateway's nodes" if got in (sA1, sA2, sB1, sB2) else "an empty table" if got == strict({}) else "a state that was never saved"
                    res.violation(f"two-gateways-saving:wrong-state:{case['at']}:{'foreign' if 'OTHER' in whose else 'other'}",
                                  f"{case['desc']}: a crash at that instant leaves {sorted(snap)}; {name} loads to {whose}", case)

        # dry run: operations of one save
        materialise(d, {nameA: dA, nameB: dB})
        engA = build(LA2, os.path.join(d, nameA))
        with Shim("count") as sh0:
            engA.gw.tasks.persistence.save_sensors()
        ops = list(sh0.ops)
        nonwrite = [i for i, o in enumerate(ops) if o[0] != "write"]
        pairs = [(j, m) for j in nonwrite + [len(ops)] for m in nonwrite + [len(ops) + 5]]
        if job.get("only"):
            pairs = [tuple(x) for x in job["only"]]
        for (j, m) in pairs:
            materialise(d, {nameA: dA, nameB: dB})
            engA = build(LA2, os.path.join(d, nameA))
            engB = build(LB2, os.path.join(d, nameB))
            sched = TwoThreadSched()
            sh = Shim("count")
            sh.on_op, sh.on_done = sched.on_op, sched.on_done
            sh.install()
            errors, completed = {}, []

            def body(who, eng):
                try:
                    eng.gw.tasks.persistence.save_sensors()
                    completed.append(who)
                except BaseException as exc:
                    errors[who] = exc
                finally:
                    sched.finish(who)

            th1 = threading.Thread(target=body, args=("T1", engA), name="T1", daemon=True)
            th2 = threading.Thread(target=body, args=("T2", engB), name="T2", daemon=True)
            case = {"kind": "concurrent-two", "ext": ext, "prior": "good", "mode": "concurrent", "j": j, "m": m, "opname": "two-gateways"}
            th1.start()
            live, phase, stuck = ["T1"], 0, None
            try:
                while True:
                    parked = sched.quiesce(live)
                    if phase == 0 and ("T1" in sched.finished or parked.get("T1", (0,))[0] >= j):
                        th2.start()
                        live, phase = ["T1", "T2"], 1
                        continue
                    if not parked:
                        break
                    last = sched.trace[-1] if sched.trace else None
                    if last is None or last[2] != "write":
                        desc = (f"two gateways saving their own {ext} files in one directory (second starts before op {j} of the first, is preempted before its op {m}); after "
                                + (f"{last[0]}'s {last[2]} {last[3]}" if last else "nothing yet"))
                        judge(snapshot_dir(d), list(completed), dict(case, at=(f"after-{last[2]}" if last else "start"), desc=desc))
                    if phase == 1 and ("T2" in sched.finished or ("T2" in parked and parked["T2"][0] >= m)):
                        phase = 2
                    if phase == 2 and "T1" in sched.finished:
                        phase = 3
                    prefer = {0: "T1", 1: "T2", 2: "T1", 3: "T2"}[phase]
                    who = prefer if prefer in parked else sorted(parked)[0]
                    sched.grant(who, recheck=parked[who][1] != "write")
            except TimeoutError:
                stuck = f"threads parked {sched.parked}, finished {sorted(sched.finished)}"
            finally:
                for th in (th1, th2):
                    if th.ident is not None:
                        th.join(5)
                sh.uninstall()
            res.evals += 1
            res.count("concurrent_schedules")
            res.count("two_gateway_save_schedules")
            if stuck or th1.is_alive() or th2.is_alive():
                res.count("concurrent_schedules_stuck")
                res.notes.append(f"two-gateway schedule ({ext},{j},{m}) did not finish: {stuck}")
                continue
            if any(t[0] == "T2" for t in sched.trace) and any(t[0] == "T1" for t in sched.trace[next(i for i, t in enumerate(sched.trace) if t[0] == "T2"):]):
                res.count("two_gateway_save_schedules_with_overlapping_operations")
            for who, exc in errors.items():
                res.violation(f"two-gateways-saving:save-raises:{type(exc).__name__}", f"two gateways saving their own {ext} files (j={j}, m={m}): {who}'s save_sensors() raised {type(exc).__name__}: {exc}", dict(case, at="end"))
            if not errors:
                judge(snapshot_dir(d), ["T1", "T2"], dict(case, at="end", desc=f"two gateways saving their own {ext} files (j={j}, m={m}), both returned"))
            res.nontrivial((ext, "two-gateways", j, m))
        res.sample({"kind": "concurrent-two", "ext": ext, "ops_per_save": len(ops), "schedules": len(pairs)})
    finally:
        shutil.rmtree(work, ignore_errors=True)


def run(job):
    res = Result()
    if job["kind"] == "concurrent-two":
        run_concurrent_two(job, res)
    elif job["kind"] == "concurrent":
        run_concurrent(job, res)
    elif job["kind"] == "shim":
        run_shim(job, res)
    else:
        run_strace(job, res)
    return res


def replay(case):
    res = Result()
    if case["kind"] in ("concurrent", "concurrent-two"):
        r = run({"kind": case["kind"], "ext": case["ext"], "prior": case["prior"], "seed": 0, "only": [(case["j"], case["m"])]})
        for v in r.violations:
            res.violation(v["sig"], v["what"], v["case"])
        return res
    job = {"kind": case["kind"], "ext": case["ext"], "prior": case["prior"], "size": case.get("size", "small"),
           "mode": case["mode"] if case["kind"] == "strace" else case["mode"], "seed": 0}
    r = run(job)
    for v in r.violations:
        res.violation(v["sig"], v["what"], v["case"])
    return res


def finish(agg, tier):
    c = agg["counters"]
    floors = [("crash_points", c.get("crash_points", 0), 400), ("failing_ops", c.get("failing_ops", 0), 400),
              ("faults_fired", c.get("faults_fired", 0), 400), ("loads_judged", c.get("loads_judged", 0), 1000),
              ("next_saves_judged", c.get("next_saves_judged", 0), 1000), ("loaded_old", c.get("loaded_old", 0), 100),
              ("loaded_new", c.get("loaded_new", 0), 30), ("layout:symlink-file", c.get("layout:symlink-file", 0), 150),
              ("concurrent_schedules", c.get("concurrent_schedules", 0), 120), ("two_gateway_save_schedules", c.get("two_gateway_save_schedules", 0), 100), ("concurrent_crash_instants_judged", c.get("concurrent_crash_instants_judged", 0), 1500)]
    notes = []
    if c.get("strace_unusable") or not c.get("strace_runs"):
        notes.append("strace half not usable in this sandbox run; the in-process shim half decides")
    else:
        floors.append(("strace_kills", c.get("strace_kills", 0), 20))
    return {
        "rule": "prior configurations {no file, good, good+stale .bak, good+stale .tmp (shorter / longer than the new file), good+both} x {json, pickle} x tree size; "
                "a dry run records the file-operation sequence of the save (open, each write, flush, fsync, close, renames, remove); "
                "every operation is used (a) as crash point: forked child ends with os._exit before the op (nothing flushed), judged "
                "as-on-disk and with unsynced data lost (files whose last write was not followed by fsync truncated to 0 / a random "
                "prefix); (b) as failing operation (EIO/ENOSPC/EACCES), followed by a retry in the surviving gateway. The same is "
                "repeated at system-call level on a real process under strace (SIGKILL on entry to the k-th call; error injection). "
                "Oracle: a fresh gateway's start_persistence() yields exactly the old or the new complete state, and one more save + "
                "load yields the then-current state. Layouts: the configured path is the file itself, or (small states, priors none / good / "
                "good+bak) a symbolic link into another directory. Two saves at once: two real threads save through the same Persistence object (the second after a state change), every file operation being a scheduling point of a controller that runs all schedules with at most two preemptions (the second save starts before operation j of the first and is preempted before its own operation m); the directory between any two operations is loaded by a fresh gateway and must give the old state or one of the two saved ones - and nothing older than a save that has already returned; neither save may raise and the final file holds the latest state (how many schedules really overlapped is reported: with a lock around the save none do). Likewise two gateways of the process, each saving its own file in the same directory (there the operations do overlap): each file must load to a state of its own gateway at every instant. distinct = (format, prior, size, op index, crash/fail, loss variant, layout).",
        "floors": floors,
        "notes": notes,
        "assumptions": ["directory operations are durable in issue order (journalled metadata); file data is durable only after fsync",
                        "one fault per save"],
        "show": ["crash_points", "lossy_variants", "failing_ops", "faults_fired", "loads_judged", "next_saves_judged", "strace_runs", "strace_kills",
                 "strace_errors_seen_by_python", "concurrent_schedules", "concurrent_crash_instants_judged",
                 "concurrent_schedules_with_overlapping_operations", "concurrent_schedules_stuck"],
    }
