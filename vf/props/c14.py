"""C14 - a clean stop loses nothing."""
import os
import shutil
import tempfile

from .. import core, gen
from ..core import Result

ID = "C14"
LEVEL = "exploration"
VERSIONS = ["1.4", "1.5", "2.0", "2.1", "2.2"]


def jobs(tier, seed):
    q = tier == "quick"
    out = [{"kind": "random", "seed": seed, "i": i, "n": 30 if q else 200} for i in range(32 if q else 96)]
    for v in VERSIONS:
        for fl in ("sync", "async"):
            out.append({"kind": "last-change", "version": v, "flavour": fl})
    return out


def state_lines(version):
    """One line per handler kind that changes persisted state (prefix establishes node 1 / child 1)."""
    two = version >= "2.0"
    L = {"node-presentation": f"9;255;0;0;17;{version}", "child-presentation": "1;2;0;0;6;t2", "set": "1;1;1;0;0;19.5",
         "battery": "1;255;3;0;0;66", "sketch-name": "1;255;3;0;11;sk", "sketch-version": "1;255;3;0;12;9.9",
         "id-request": "255;255;3;0;3;", "re-presentation": f"1;255;0;0;18;{version}"}
    if two:
        L["heartbeat"] = "1;255;3;0;22;12345"
    return L


def run_one(cfg, steps, tmp):
    from ..persist import run_persist_history

    path = os.path.join(tmp, f"p{os.getpid()}.{cfg['ext']}")
    try:
        return run_persist_history(cfg, steps, path)
    finally:
        for f in os.listdir(tmp):
            os.remove(os.path.join(tmp, f))


def judge(res, cfg, steps, out, tag):
    from ..drive import strict

    for (before, after, idx) in out["restarts"]:
        res.count("stops_judged")
        if strict(before) != strict(after):
            lost = sorted(set(before) - set(after))
            extra = sorted(set(after) - set(before))
            changed = sorted(k for k in set(before) & set(after) if strict(before[k]) != strict(after[k]))
            fields = set()
            for k in changed:
                for f in before[k]:
                    if strict(before[k][f]) != strict(after[k][f]):
                        fields.add(f)
            what = "node-lost" if lost else ("node-appeared" if extra else "attr:" + ",".join(sorted(fields)))
            res.violation(f"stop-loses:{what}:{tag}", f"after stop()+restart (step {idx}): lost nodes {lost}, extra {extra}, changed {changed} {sorted(fields)}",
                          {"cfg": cfg, "steps": steps})
    for (idx, exc) in out.get("stop_errors", []):
        res.violation(f"stop-raises:{core.exc_sig(exc)}", f"stop() at step {idx} raised {type(exc).__name__}: {exc}", {"cfg": cfg, "steps": steps})
    if out["transient_after_load"]:
        res.notes.append(f"transient state after load: {out['transient_after_load'][:3]}")
    if out["crashed"]:
        res.notes.append(f"history crashed: {out['crashed'][1]!r}")


def last_kind(steps, version):
    from ..drive import lib_verdict

    for s in reversed(steps):
        if s[0] == "in":
            m, v = lib_verdict(s[1], version)
            if v == "ok":
                return (m.type, m.sub_type if m.type == 3 else -1)
    return None


def run(job):
    res = Result()
    tmp = tempfile.mkdtemp(prefix="vf-c14-")
    try:
        if job["kind"] == "last-change":
            v, fl = job["version"], job["flavour"]
            prefix = [["in", f"1;255;0;0;17;{v}"], ["in", "1;1;0;0;6;t"]]
            for name, line in state_lines(v).items():
                for ext in ("json", "pickle"):
                    for pat in ("only", "after-tick", "after-two-ticks", "tick-after", "during-tick"):
                        cfg = {"version": v, "flavour": fl, "ext": ext, "callback": pat != "after-tick" or ext == "json"}
                        if pat == "only":
                            steps = prefix + [["in", line], ["stop"]]
                        elif pat == "after-tick":
                            steps = prefix + [["tick"], ["in", line], ["stop"]]
                        elif pat == "after-two-ticks":
                            steps = prefix + [["tick"], ["tick"], ["in", line], ["stop"]]
                        elif pat == "during-tick":
                            # the change arrives, and stop() is called, while a periodic save is in flight in the timer thread
                            steps = prefix + [["tick"], ["in", "1;255;3;0;0;55"], ["stop-during-tick", line]]
                        else:
                            steps = prefix + [["tick"], ["in", line], ["tick"], ["stop"]]
                        out = run_one(cfg, steps, tmp)
                        res.count("stops_during_a_tick", out.get("stops_during_a_tick", 0))
                        res.evals += 1
                        res.count("last_change_cases")
                        judge(res, cfg, steps, out, name)
                        res.nontrivial((name, pat, ext, fl, v))
            res.sample({"mode": "last-change", "version": v, "flavour": fl, "kinds": sorted(state_lines(v))})
            return res
        rng = core.rng_for(ID, job["seed"], job["i"])
        for h in range(job["n"]):
            cfg = {"version": VERSIONS[h % 5], "flavour": ["sync", "async"][(h // 5) % 2], "ext": ["json", "pickle"][(h // 10) % 2], "callback": h % 3 != 2}
            steps = []
            for s in gen.history(rng, cfg["version"], rng.randint(10, 50), {"garbage": 0.1, "ctl": 0.05, "sleep": True, "ota": False, "unicode": 0.3}):
                if s[0] in ("in", "set"):
                    steps.append(s[:5] if s[0] == "set" else s)
                if rng.random() < 0.12:
                    steps.append(["tick"])
                if rng.random() < 0.04:
                    steps.append(["restart"])
                if rng.random() < 0.06:
                    steps.append(["in", "255;255;3;0;3;"])
            if h % 4 == 1:
                # the device sends one more state-changing line while stop() is running
                steps.append(["stop", rng.choice([f"9;255;0;0;17;{cfg['version']}", "1;255;3;0;0;33", "255;255;3;0;3;", "1;1;1;0;0;77"])])
                res.count("stops_with_a_late_line")
            elif h % 4 == 3:
                steps.append(["stop-during-tick", rng.choice([f"9;255;0;0;17;{cfg['version']}", "1;255;3;0;0;34", "1;1;1;0;0;78", None])])
            else:
                steps.append(["stop"])
            out = run_one(cfg, steps, tmp)
            res.evals += 1
            res.count("histories")
            res.count("late_lines_delivered", out.get("late_lines_delivered", 0))
            res.count("stops_during_a_tick", out.get("stops_during_a_tick", 0))
            res.count("ticks", out["ticks"])
            judge(res, cfg, steps, out, "random")
            ticks = tuple(i for i, s in enumerate(steps) if s[0] == "tick")[-3:]
            res.nontrivial((last_kind(steps, cfg["version"]), len(ticks), cfg["ext"], cfg["flavour"], h))
            if h < 1 and job["i"] == 0:
                res.sample({"cfg": cfg, "steps": steps[:25]})
    finally:
        shutil.rmtree(tmp, ignore_errors=True)
    return res


def replay(case):
    res = Result()
    tmp = tempfile.mkdtemp(prefix="vf-c14-")
    try:
        out = run_one(case["cfg"], case["steps"], tmp)
        judge(res, case["cfg"], case["steps"], out, "replay")
    finally:
        shutil.rmtree(tmp, ignore_errors=True)
    return res


def finish(agg, tier):
    c = agg["counters"]
    return {
        "rule": "(a) bounded-exhaustive: every handler kind that changes persisted state (node/child presentation, set, battery, "
                "sketch name/version, heartbeat, id request, re-presentation) as the last change before stop(), with 0/1/2 save "
                "ticks before it or one after it, x format x flavour x version; (b) random lock-step histories with ticks and "
                "restarts at arbitrary positions ended by the real stop(); in a quarter of them the device sends one more state-changing "
                "line while stop() runs (right after a save completes, delivered only if the transport is still open), and in another quarter (threaded flavour) "
                "stop() is called while a periodic save is in flight in the timer thread (it has serialised the state and waits in fsync; "
                "one more state-changing line arrives in between; the timer thread finishes after stop() returned). Oracle: strict (type-tagged) projection held before "
                "stop() == projection of a fresh gateway after start_persistence() on the same file. distinct = (last "
                "state-changing kind, tick pattern, format, flavour, version/history).",
        "floors": [("stops_judged", c.get("stops_judged", 0), 2000), ("last_change_cases", c.get("last_change_cases", 0), 600),
                   ("ticks", c.get("ticks", 0), 1500), ("stops_with_a_late_line", c.get("stops_with_a_late_line", 0), 150),
                   ("stops_during_a_tick", c.get("stops_during_a_tick", 0), 100)],
        "assumptions": ["save ticks = the real schedule_save body (threaded, captured Timer) / the real save loop on a virtual-time "
                        "asyncio loop with run_in_executor inline"],
        "show": ["histories", "stops_judged", "last_change_cases", "ticks", "stops_during_a_tick"],
    }
