"""C14 - a clean stop loses nothing."""
import os
import shutil
import tempfile

from .. import core, gen
from ..core import Result

ID = "C14"
LEVEL = "exploration"
VERSIONS = ["1.4", "1.5", "2.0", "2.1", "2.2"]


def jobs(tier, seed):
    q = tier == "quick"
    out = [{"kind": "random", "seed": seed, "i": i, "n": 30 if q else 200} for i in range(32 if q else 96)]
    for v in VERSIONS:
        for fl in ("sync", "async"):
            out.append({"kind": "last-change", "version": v, "flavour": fl})
    # real threads: the real poll thread handles a flood of messages while the real timer thread saves every few ms
    for i in range(6 if q else 24):
        out.append({"kind": "real-threads", "seed": seed * 100 + i, "version": VERSIONS[i % 5], "ext": ["json", "pickle"][i % 2]})
    for i in range(2 if q else 6):
        out.append({"kind": "real-threads", "seed": seed * 100 + 30 + i, "version": VERSIONS[i % 5], "ext": ["json", "pickle"][i % 2], "stop_in_callback": True})
    for i in range(4 if q else 16):
        out.append({"kind": "real-loop", "seed": seed * 100 + 50 + i, "version": VERSIONS[i % 5], "ext": ["pickle", "json"][i % 2]})
    return out


def state_lines(version):
    """One line per handler kind that changes persisted state (prefix establishes node 1 / child 1)."""
    two = version >= "2.0"
    L = {"node-presentation": f"9;255;0;0;17;{version}", "child-presentation": "1;2;0;0;6;t2", "set": "1;1;1;0;0;19.5",
         "battery": "1;255;3;0;0;66", "sketch-name": "1;255;3;0;11;sk", "sketch-version": "1;255;3;0;12;9.9",
         "id-request": "255;255;3;0;3;", "re-presentation": f"1;255;0;0;18;{version}"}
    if two:
        L["heartbeat"] = "1;255;3;0;22;12345"
    return L


def run_one(cfg, steps, tmp):
    from ..persist import run_persist_history

    path = os.path.join(tmp, f"p{os.getpid()}.{cfg['ext']}")
    try:
        return run_persist_history(cfg, steps, path)
    finally:
        for f in os.listdir(tmp):
            os.remove(os.path.join(tmp, f))


def judge(res, cfg, steps, out, tag):
    from ..drive import strict

    for (before, after, idx) in out["restarts"]:
        res.count("stops_judged")
        if strict(before) != strict(after):
            lost = sorted(set(before) - set(after))
            extra = sorted(set(after) - set(before))
            changed = sorted(k for k in set(before) & set(after) if strict(before[k]) != strict(after[k]))
            fields = set()
            for k in changed:
                for f in before[k]:
                    if strict(before[k].get(f)) != strict(after[k].get(f)):
                        fields.add(f)
            what = "node-lost" if lost else ("node-appeared" if extra else "attr:" + ",".join(sorted(fields)))
            res.violation(f"stop-loses:{what}:{tag}", f"after stop()+restart (step {idx}): lost nodes {lost}, extra {extra}, changed {changed} {sorted(fields)}",
                          {"cfg": cfg, "steps": steps})
    for (idx, exc) in out.get("stop_errors", []):
        res.violation(f"stop-raises:{core.exc_sig(exc)}", f"stop() at step {idx} raised {type(exc).__name__}: {exc}", {"cfg": cfg, "steps": steps})
    if out["transient_after_load"]:
        res.notes.append(f"transient state after load: {out['transient_after_load'][:3]}")
    if out["crashed"]:
        res.notes.append(f"history crashed: {out['crashed'][1]!r}")


def last_kind(steps, version):
    from ..drive import lib_verdict

    for s in reversed(steps):
        if s[0] == "in":
            m, v = lib_verdict(s[1], version)
            if v == "ok":
                return (m.type, m.sub_type if m.type == 3 else -1)
    return None


def run_real_threads(job, res, tmp):
    """The real threaded gateway with its real poll thread and real threading.Timer save chain (period shortened from
    10 s to 5 ms): messages are handled WHILE saves run. After the queue has drained: stop(), then a fresh gateway loads the
    file; it must reproduce what the first one held when it stopped."""
    import random
    import threading
    import time
    import mysensors.persistence as mp
    import mysensors.task as mtask
    from mysensors import BaseSyncGateway
    from ..drive import RecT, projection, strict

    version, ext = job["version"], job["ext"]
    rng = random.Random(job["seed"])
    path = os.path.join(tmp, f"rt{os.getpid()}.{ext}")

    period = [0.005]

    class FastTimer(threading.Timer):
        def __init__(self, interval, function, args=None, kwargs=None):
            super().__init__(period[0] if interval == 10.0 else interval, function, args, kwargs)

    class Threading:
        Timer = FastTimer

        def __getattr__(self, n):
            return getattr(threading, n)

    stats = {"saves": 0, "save_errors": 0, "saves_overlapping_a_message": 0}
    in_save = [False]
    orig_save = mp.Persistence.save_sensors

    def save(self):
        if not self.need_save:
            return orig_save(self)
        stats["saves"] += 1
        in_save[0] = True
        try:
            return orig_save(self)
        except BaseException:
            stats["save_errors"] += 1
            raise
        finally:
            in_save[0] = False

    died = []
    old_threading, old_hook = mtask.threading, threading.excepthook
    mtask.threading = Threading()
    mp.Persistence.save_sensors = save
    threading.excepthook = lambda a: died.append((type(a.exc_value).__name__, str(a.exc_value)[:80]))
    gw = None
    try:
        stop_in_cb = job.get("stop_in_callback", False)
        cb_state = {"exc": None, "called": False}

        def event(msg):
            # the user shuts the gateway down from the event callback (a "power off" switch on a node): stop() then runs
            # on the poll thread itself
            if stop_in_cb and msg.node_id == 99 and not cb_state["called"]:
                cb_state["called"] = True
                try:
                    gw.stop()
                except Exception as exc:
                    cb_state["exc"] = exc

        gw = BaseSyncGateway(RecT(), persistence=True, persistence_file=path, protocol_version=version, event_callback=event)
        orig_logic = gw.logic

        def logic(data):
            if in_save[0]:
                stats["saves_overlapping_a_message"] += 1
            return orig_logic(data)

        gw.logic = logic
        gw.start_persistence()
        gw.start()
        lines = []
        for n in range(1, 30):
            lines.append(f"{n};255;0;0;17;{version}")
            lines += [f"{n};{c};0;0;6;c{c}" for c in range(3)]
        for _ in range(1200):
            lines.append(rng.choice([gen.valid_line(rng, version), f"{rng.randint(1, 60)};255;0;0;17;{version}",
                                     f"{rng.randint(1, 60)};{rng.randint(0, 5)};0;0;6;d", "255;255;3;0;3;",
                                     f"{rng.randint(1, 29)};{rng.randint(0, 2)};1;0;0;{rng.random():.3f}"]))
        for line in lines:
            gw.tasks.add_job(gw.logic, line)
            if rng.random() < 0.05:
                time.sleep(0.001)
        t_end = time.time() + 30
        while gw.tasks.queue and time.time() < t_end:
            time.sleep(0.005)
        time.sleep(rng.choice([0.0, 0.003, 0.02]))
        stop_exc = None
        if stop_in_cb:
            # from here on the save timer has its real period again: no periodic save comes to the rescue within the run
            period[0] = 10.0
            time.sleep(0.05)
            gw.tasks.add_job(gw.logic, f"99;255;0;0;17;{version}")      # the message whose callback calls stop()
            t_end = time.time() + 10
            while not cb_state["called"] and time.time() < t_end:
                time.sleep(0.005)
            time.sleep(0.1)
            stop_exc = cb_state["exc"]
            res.count("real_thread_stops_from_the_callback", int(cb_state["called"]))
        else:
            try:
                gw.stop()
            except Exception as exc:     # judged below: a stop() that raises has not done its job
                stop_exc = exc
        held = projection(gw.sensors)
        time.sleep(0.05)        # a save that was in flight in the timer thread finishes
    finally:
        mtask.threading = old_threading
        mp.Persistence.save_sensors = orig_save
        threading.excepthook = old_hook
    g2 = BaseSyncGateway(RecT(), persistence=True, persistence_file=path, protocol_version=version)
    g2.tasks.persistence.safe_load_sensors()
    got = projection(g2.sensors)
    res.evals += 1
    res.count("real_thread_runs")
    res.count("real_thread_saves", stats["saves"])
    res.count("real_thread_failed_saves", stats["save_errors"])
    res.count("real_thread_messages_handled_during_a_save", stats["saves_overlapping_a_message"])
    res.count("real_thread_messages", len(lines))
    case = {"real_threads": True, "seed": job["seed"], "version": version, "ext": ext, "stop_in_callback": job.get("stop_in_callback", False)}
    if stats["saves_overlapping_a_message"]:
        res.nontrivial(("real-threads", version, ext, job["seed"]))
    if stop_exc is not None:
        # stop() collided with a periodic save that was in flight in the timer thread (both use the one temp file): the
        # statement is about the file afterwards, which is judged below; the exception itself is reported, not judged
        res.count("real_thread_stops_that_raised")
        res.notes.append(f"real threads: stop() raised {type(stop_exc).__name__} ({core.exc_sig(stop_exc)}) while a periodic save was in flight; "
                         f"file afterwards {'reproduces' if strict(got) == strict(held) else 'does NOT reproduce'} the state held")
    if strict(got) != strict(held):
        lost = sorted(set(held) - set(got))
        changed = sorted(k for k in set(held) & set(got) if strict(held[k]) != strict(got[k]))
        res.violation(f"stop-loses:real-threads:{'nodes' if lost else 'values'}:{ext}",
                      f"real poll thread + real save timer ({stats['saves']} saves, {stats['saves_overlapping_a_message']} messages handled during a save): "
                      f"after stop()+restart lost nodes {lost[:5]}, changed nodes {changed[:5]}", case)
    if any(d for d in died if "interpreter shutdown" not in d[1]):
        res.count("real_thread_exceptions_in_threads", len(died))
    for f in os.listdir(tmp):
        try:
            os.remove(os.path.join(tmp, f))
        except OSError:
            pass


def run_real_loop(job, res, tmp):
    """The asyncio gateway on a real event loop: messages are handled on the loop thread while the real save task saves in
    executor threads every 5 ms (its asyncio.sleep(10.0) shortened). Queue drained, stop(), fresh gateway, load."""
    import asyncio
    import random
    import threading
    import time
    import mysensors.persistence as mp
    import mysensors.task as mtask
    from mysensors import BaseAsyncGateway
    from ..drive import AsyncRecT, projection, strict

    version, ext = job["version"], job["ext"]
    rng = random.Random(job["seed"])
    path = os.path.join(tmp, f"rl{os.getpid()}.{ext}")
    real_sleep = asyncio.sleep

    class Asyncio:
        @staticmethod
        def sleep(delay, *a, **k):
            return real_sleep(0.005 if delay == 10.0 else delay, *a, **k)

        def __getattr__(self, n):
            return getattr(asyncio, n)

    stats = {"saves": 0, "save_errors": 0, "overlap": 0}
    in_save = [0]
    orig_save = mp.Persistence.save_sensors

    def save(self):
        if not self.need_save:
            return orig_save(self)
        stats["saves"] += 1
        in_save[0] += 1
        try:
            return orig_save(self)
        except BaseException:
            stats["save_errors"] += 1
            raise
        finally:
            in_save[0] -= 1

    loop = asyncio.new_event_loop()
    loop_errors = []
    loop.set_exception_handler(lambda lp, ctx: loop_errors.append(repr(ctx.get("exception") or ctx.get("message"))[:120]))
    th = threading.Thread(target=loop.run_forever, daemon=True, name="vf-loop")
    th.start()

    def on_loop(coro_fn, timeout=60):
        return asyncio.run_coroutine_threadsafe(coro_fn(), loop).result(timeout)

    old_asyncio = mtask.asyncio
    mtask.asyncio = Asyncio()
    mp.Persistence.save_sensors = save
    stop_exc = None
    try:
        async def build():
            return BaseAsyncGateway(AsyncRecT(), persistence=True, persistence_file=path, protocol_version=version)

        gw = on_loop(build)
        orig_logic = gw.logic

        def logic(data):
            if in_save[0]:
                stats["overlap"] += 1
            return orig_logic(data)

        gw.logic = logic
        on_loop(gw.start_persistence)
        lines = []
        for n in range(1, 30):
            lines.append(f"{n};255;0;0;17;{version}")
            lines += [f"{n};{c};0;0;6;c{c}" for c in range(3)]
        for _ in range(1200):
            lines.append(rng.choice([gen.valid_line(rng, version), f"{rng.randint(1, 60)};255;0;0;17;{version}",
                                     f"{rng.randint(1, 60)};{rng.randint(0, 5)};0;0;6;d", "255;255;3;0;3;",
                                     f"{rng.randint(1, 29)};{rng.randint(0, 2)};1;0;0;{rng.random():.3f}"]))
        done = threading.Event()
        for i, line in enumerate(lines):
            loop.call_soon_threadsafe(gw.tasks.add_job, gw.logic, line)
            if rng.random() < 0.05:
                time.sleep(0.001)
        loop.call_soon_threadsafe(done.set)
        done.wait(60)
        time.sleep(rng.choice([0.0, 0.003, 0.02]))
        try:
            on_loop(gw.stop)
        except Exception as exc:
            stop_exc = exc
        held = projection(gw.sensors)
        time.sleep(0.05)
    finally:
        mtask.asyncio = old_asyncio
        mp.Persistence.save_sensors = orig_save

        def _cancel_all():
            for t in asyncio.all_tasks(loop):
                t.cancel()
            loop.call_later(0.05, loop.stop)
        loop.call_soon_threadsafe(_cancel_all)
        th.join(3.0)
        if not loop.is_running():
            loop.close()
    fresh = {}
    mp.Persistence(fresh, lambda save: (lambda: None), persistence_file=path).safe_load_sensors()
    got = projection(fresh)
    res.evals += 1
    res.count("real_loop_runs")
    res.count("real_loop_saves", stats["saves"])
    res.count("real_loop_failed_saves", stats["save_errors"])
    res.count("real_loop_messages_handled_during_a_save", stats["overlap"])
    case = {"real_loop": True, "seed": job["seed"], "version": version, "ext": ext}
    if stats["overlap"]:
        res.nontrivial(("real-loop", version, ext, job["seed"]))
    if stop_exc is not None:
        res.count("real_thread_stops_that_raised")
        res.notes.append(f"real loop: stop() raised {type(stop_exc).__name__} ({core.exc_sig(stop_exc)}); file afterwards "
                         f"{'reproduces' if strict(got) == strict(held) else 'does NOT reproduce'} the state held")
    if strict(got) != strict(held):
        lost = sorted(set(held) - set(got))
        changed = sorted(k for k in set(held) & set(got) if strict(held[k]) != strict(got[k]))
        res.violation(f"stop-loses:real-loop:{'nodes' if lost else 'values'}:{ext}",
                      f"real event loop + real save task ({stats['saves']} saves, {stats['overlap']} messages handled during a save): "
                      f"after stop()+restart lost nodes {lost[:5]}, changed nodes {changed[:5]}", case)
    for f in os.listdir(tmp):
        try:
            os.remove(os.path.join(tmp, f))
        except OSError:
            pass


def run(job):
    res = Result()
    # the real-thread / real-loop jobs want messages to arrive WHILE a save is in flight: their files go to the disk,
    # where the fsync of every save takes its time
    tmp = tempfile.mkdtemp(prefix="vf-c14-", dir=core.DISK_TMP if job["kind"] in ("real-threads", "real-loop") else None)
    try:
        if job["kind"] == "real-threads":
            run_real_threads(job, res, tmp)
            return res
        if job["kind"] == "real-loop":
            run_real_loop(job, res, tmp)
            return res
        if job["kind"] == "last-change":
            v, fl = job["version"], job["flavour"]
            prefix = [["in", f"1;255;0;0;17;{v}"], ["in", "1;1;0;0;6;t"]]
            for name, line in state_lines(v).items():
                for ext in ("json", "pickle"):
                    for pat in ("only", "after-tick", "after-two-ticks", "tick-after", "during-tick", "during-tick-mid-write", "tick-while-dir-away"):
                        cfg = {"version": v, "flavour": fl, "ext": ext, "callback": pat != "after-tick" or ext == "json"}
                        if pat == "only":
                            steps = prefix + [["in", line], ["stop"]]
                        elif pat == "after-tick":
                            steps = prefix + [["tick"], ["in", line], ["stop"]]
                        elif pat == "after-two-ticks":
                            steps = prefix + [["tick"], ["tick"], ["in", line], ["stop"]]
                        elif pat == "tick-while-dir-away":
                            # the change is followed by a periodic save that cannot write (directory away for a moment)
                            steps = prefix + [["tick"], ["in", line], ["tick-unwritable"], ["stop"]]
                        elif pat == "during-tick-mid-write":
                            # ... or has written only a part of the temp file so far
                            steps = prefix + [["tick"], ["in", "1;255;3;0;0;55"], ["stop-during-tick", line, "mid-write"]]
                        elif pat == "during-tick":
                            # the change arrives, and stop() is called, while a periodic save is in flight in the timer thread
                            steps = prefix + [["tick"], ["in", "1;255;3;0;0;55"], ["stop-during-tick", line]]
                        else:
                            steps = prefix + [["tick"], ["in", line], ["tick"], ["stop"]]
                        out = run_one(cfg, steps, tmp)
                        res.count("stops_during_a_tick", out.get("stops_during_a_tick", 0))
                        res.evals += 1
                        res.count("last_change_cases")
                        judge(res, cfg, steps, out, name)
                        res.nontrivial((name, pat, ext, fl, v))
            # every presentation type and every value type on its own: whichever it is, a change that arrives after the
            # last periodic save must be in the file after stop()
            from .. import spec

            sweep = [(f"presentation:{pt}", f"1;2;0;0;{pt};d{pt}") for pt in range(0, spec.MAX_PRES[v] + 1) if pt not in (17, 18)]
            for vt in range(0, spec.MAX_SET[v] + 1):
                rule = spec.rule_for(v, 1, vt)
                good = next((p_ for p_, e in (spec.corpus(rule) if rule else []) if e is True and p_ != ""), None)
                if rule == "ANY" or (rule and good is None):
                    good = "7"
                if good is not None:
                    sweep.append((f"set:{vt}", f"1;1;1;0;{vt};{good}"))
            for k, (name, line) in enumerate(sweep):
                ext = ("json", "pickle")[k % 2]
                cfg = {"version": v, "flavour": fl, "ext": ext, "callback": k % 3 != 0}
                steps = prefix + [["tick"], ["in", line], ["stop"]]
                out = run_one(cfg, steps, tmp)
                res.evals += 1
                res.count("last_change_cases")
                res.count("last_change_sub_types_swept")
                judge(res, cfg, steps, out, name.split(":")[0] + "-sweep")
                res.nontrivial((name, "after-tick", ext, fl, v))
            # smart sleep: the controller's desired value has been saved by a periodic save, then the node's report - equal to
            # the desired value (the usual confirmation) or another one - is the last change before stop()
            if v >= "2.0":
                wake = "1;255;3;0;32;500" if v >= "2.2" else "1;255;3;0;22;1"
                for k, (variant, rep) in enumerate([("confirms-desired", "21.5"), ("reports-another", "20.0"), ("repeats-old", "19.5")]):
                    for ext in ("json", "pickle"):
                        cfg = {"version": v, "flavour": fl, "ext": ext, "callback": (k + len(ext)) % 2 == 0}
                        steps = prefix + [["in", "1;1;1;0;0;19.5"], ["in", wake], ["set", 1, 1, 0, "21.5"], ["tick"],
                                          ["in", f"1;1;1;0;0;{rep}"], ["stop"]]
                        out = run_one(cfg, steps, tmp)
                        res.evals += 1
                        res.count("last_change_cases")
                        res.count("last_change_reports_of_a_sleeping_node")
                        judge(res, cfg, steps, out, "sleeping-node-report:" + variant)
                        res.nontrivial(("sleeping-node-report", variant, ext, fl, v))
            # a second gateway with a persistence file of its own in the same process saves between this gateway's last
            # change and its stop()
            from ..drive import projection, strict
            from ..persist import PGateway

            for name, line in state_lines(v).items():
                for ext in ("json", "pickle"):
                    for a_does in ("tick", "stop"):
                        pa, pb = os.path.join(tmp, f"a{os.getpid()}.{ext}"), os.path.join(tmp, f"b{os.getpid()}.{ext}")
                        A, B = PGateway(fl, v, pa), PGateway(fl, v, pb)
                        case = {"cfg": {"version": v, "flavour": fl, "ext": ext}, "two_gateways": True, "line": line, "other_gateway_does": a_does}
                        try:
                            A.start()
                            B.start()
                            for g in (A, B):
                                for st_ in prefix:
                                    g.eng.feed(st_[1])
                                g.tick()
                            B.eng.feed(line)
                            A.eng.feed("1;255;3;0;0;41")
                            if a_does == "tick":
                                A.tick()
                            else:
                                A.stop()
                            before = strict(projection(B.gw.sensors))
                            B.stop()
                            B.close()
                            B2 = PGateway(fl, v, pb)
                            B2.start()
                            after = strict(projection(B2.gw.sensors))
                            B2.stop()
                            B2.close()
                            if a_does == "tick":
                                A.stop()
                            A.close()
                        except Exception as exc:
                            res.violation(f"stop-raises:{core.exc_sig(exc)}:two-gateways", f"two gateways with persistence in one process: {type(exc).__name__}: {exc}", case)
                            continue
                        finally:
                            for f in os.listdir(tmp):
                                os.remove(os.path.join(tmp, f))
                        res.evals += 1
                        res.count("two_gateway_cases")
                        if before != after:
                            res.violation(f"stop-loses:beside-another-gateway:{name}", f"gateway B handled {line!r} after its last periodic save, another gateway of the process "
                                          f"then did its {a_does}; after B.stop() and a restart B's state differs from what it held", case)
                        res.nontrivial((name, "two-gateways", a_does, ext, fl, v))
            res.sample({"mode": "last-change", "version": v, "flavour": fl, "kinds": sorted(state_lines(v)), "sub_types_swept": len(sweep)})
            return res
        rng = core.rng_for(ID, job["seed"], job["i"])
        for h in range(job["n"]):
            cfg = {"version": VERSIONS[h % 5], "flavour": ["sync", "async"][(h // 5) % 2], "ext": ["json", "pickle"][(h // 10) % 2], "callback": h % 3 != 2}
            steps = []
            for s in gen.history(rng, cfg["version"], rng.randint(10, 50), {"garbage": 0.1, "ctl": 0.05, "sleep": True, "ota": False, "unicode": 0.3}):
                if s[0] in ("in", "set"):
                    steps.append(s[:5] if s[0] == "set" else s)
                if rng.random() < 0.12:
                    steps.append(["tick"])
                if rng.random() < 0.04:
                    steps.append(["restart"])
                if rng.random() < 0.06:
                    steps.append(["in", "255;255;3;0;3;"])
            if h % 4 == 1:
                # the device sends one more state-changing line while stop() is running
                steps.append(["stop", rng.choice([f"9;255;0;0;17;{cfg['version']}", "1;255;3;0;0;33", "255;255;3;0;3;", "1;1;1;0;0;77"])])
                res.count("stops_with_a_late_line")
            elif h % 4 == 3:
                steps.append(["stop-during-tick", rng.choice([f"9;255;0;0;17;{cfg['version']}", "1;255;3;0;0;34", "1;1;1;0;0;78", None])])
            else:
                steps.append(["stop"])
            out = run_one(cfg, steps, tmp)
            res.evals += 1
            res.count("histories")
            res.count("late_lines_delivered", out.get("late_lines_delivered", 0))
            res.count("stops_during_a_tick", out.get("stops_during_a_tick", 0))
            res.count("ticks", out["ticks"])
            judge(res, cfg, steps, out, "random")
            ticks = tuple(i for i, s in enumerate(steps) if s[0] == "tick")[-3:]
            res.nontrivial((last_kind(steps, cfg["version"]), len(ticks), cfg["ext"], cfg["flavour"], h))
            if h < 1 and job["i"] == 0:
                res.sample({"cfg": cfg, "steps": steps[:25]})
    finally:
        shutil.rmtree(tmp, ignore_errors=True)
    return res


def replay(case):
    res = Result()
    tmp = tempfile.mkdtemp(prefix="vf-c14-", dir=core.DISK_TMP if case.get("real_loop") or case.get("real_threads") else None)
    try:
        if case.get("real_loop"):
            for k in range(3):
                run_real_loop({"seed": case["seed"], "version": case["version"], "ext": case["ext"]}, res, tmp)
            return res
        if case.get("real_threads"):
            for k in range(3):      # real threads: not replayable bit for bit, the same workload is run three times
                run_real_threads({"seed": case["seed"], "version": case["version"], "ext": case["ext"], "stop_in_callback": case.get("stop_in_callback", False)}, res, tmp)
            return res
        if case.get("two_gateways"):
            r = run({"kind": "last-change", "version": case["cfg"]["version"], "flavour": case["cfg"]["flavour"]})
            for v_ in r.violations:
                if "two-gateways" in v_["sig"] or "beside-another-gateway" in v_["sig"]:
                    res.violation(v_["sig"], v_["what"], v_["case"])
            return res
        out = run_one(case["cfg"], case["steps"], tmp)
        judge(res, case["cfg"], case["steps"], out, "replay")
    finally:
        shutil.rmtree(tmp, ignore_errors=True)
    return res


def finish(agg, tier):
    c = agg["counters"]
    return {
        "rule": "(a) bounded-exhaustive: every handler kind that changes persisted state (node/child presentation, set, battery, "
                "sketch name/version, heartbeat, id request, re-presentation) as the last change before stop(), with 0/1/2 save "
                "ticks before it or one after it, x format x flavour x version; every presentation type and every value type of the version on its own as the "
                "only change after the last periodic save; for 2.x the report of a smart-sleep node (confirming the controller's pending desired value, another "
                "value, or the old value) as the last change after a periodic save that followed set_child_value; each handler kind again while a second gateway of the process, with a persistence file of its own, "
                "does a periodic save or its stop() between the change and this gateway's stop(); (b) random lock-step histories with ticks and "
                "restarts at arbitrary positions ended by the real stop(); in a quarter of them the device sends one more state-changing "
                "line while stop() runs (right after a save completes, delivered only if the transport is still open), and in another quarter (threaded flavour) "
                "stop() is called while a periodic save is in flight in the timer thread (it has serialised the state and waits in fsync; "
                "one more state-changing line arrives in between; the timer thread finishes after stop() returned); (c) real threads: the real "
                "poll thread handles ~1300 messages while the real threading.Timer chain saves every 5 ms (instead of 10 s), then the queue "
                "drains, stop(), fresh gateway, load; likewise the asyncio gateway on a real event loop whose save task runs in executor "
                "threads. Oracle: strict (type-tagged) projection held before "
                "stop() == projection of a fresh gateway after start_persistence() on the same file. distinct = (last "
                "state-changing kind, tick pattern, format, flavour, version/history).",
        "floors": [("stops_judged", c.get("stops_judged", 0), 2000), ("last_change_cases", c.get("last_change_cases", 0), 600),
                   ("ticks", c.get("ticks", 0), 1500), ("last_change_sub_types_swept", c.get("last_change_sub_types_swept", 0), 500),
                   ("last_change_reports_of_a_sleeping_node", c.get("last_change_reports_of_a_sleeping_node", 0), 30),
                   ("two_gateway_cases", c.get("two_gateway_cases", 0), 300), ("stops_with_a_late_line", c.get("stops_with_a_late_line", 0), 150),
                   ("stops_during_a_tick", c.get("stops_during_a_tick", 0), 100),
                   ("real_thread_runs", c.get("real_thread_runs", 0), 6),
                   ("real_thread_messages_handled_during_a_save", c.get("real_thread_messages_handled_during_a_save", 0), 50),
                   ("real_loop_runs", c.get("real_loop_runs", 0), 4), ("real_thread_stops_from_the_callback", c.get("real_thread_stops_from_the_callback", 0), 2),
                   ("real_loop_messages_handled_during_a_save", c.get("real_loop_messages_handled_during_a_save", 0), 20)],
        "assumptions": ["save ticks = the real schedule_save body (threaded, captured Timer) / the real save loop on a virtual-time "
                        "asyncio loop with run_in_executor inline"],
        "show": ["histories", "stops_judged", "last_change_cases", "ticks", "stops_during_a_tick", "real_thread_runs", "real_thread_saves",
                 "real_thread_failed_saves", "real_thread_messages_handled_during_a_save", "real_thread_stops_that_raised",
                 "real_loop_runs", "real_loop_saves", "real_loop_messages_handled_during_a_save"],
    }
