"""C08 - withheld traffic reaches the sleeping node exactly once, in order."""
from .. import core
from ..lockprops import make_jobs, replay_lock, run_lock_job

ID = "C08"
LEVEL = "exploration"
PROFILE = {"cbset": True, "garbage": 0.05, "ctl": 0.25, "semicolon": False, "sleep": True, "ota": True, "reload": 0.05, "unicode": 0.1}


def jobs(tier, seed):
    q = tier == "quick"
    out = make_jobs(seed, 32 if q else 128, 50 if q else 220, 80, ["2.0", "2.1", "2.2"], ["sync", "async"], PROFILE)
    # a controller thread calling set_child_value while the poll thread handles the node's wake-up (controlled scheduler)
    for v in ("2.0", "2.2"):
        for new_type in (True, False):
            out.append({"kind": "sched", "version": v, "new_type": new_type, "bound": 1 if q else 2})
        # ... and while the poll thread stores the node's report of the value that was pending
        out.append({"kind": "sched", "version": v, "new_type": False, "bound": 1 if q else 2, "a_is": "report"})
    return out


def normal_forms(res, cfg, steps, out):
    for held, nsets, ngot in out.bursts:
        if ngot >= 2:
            res.nontrivial((cfg["version"], held, nsets))
            res.count("bursts_releasing_2plus")
        if nsets:
            res.count("bursts_with_desired_sets")
    for k in out.kinds:
        if k == "req-desired":
            res.count("requests_answered_with_desired")
        if k == "ctl-set-refused":
            res.count("controller_sets_refused")


def run_sched(job):
    """Two real threads under the sys.monitoring scheduler: A handles the wake-up line of a sleeping node (as the poll thread
    does), B is the controller calling set_child_value for that node (a value type that has / has not been set before).
    Every interleaving with at most `bound` preemptions at source-line granularity in the handlers, the sensor and the
    gateway. Oracle: neither thread raises; the value set by B is sent in this burst or in the next one, exactly once;
    the value that was already pending is sent exactly once in this burst."""
    import inspect
    import mysensors
    import mysensors.handler as mh
    import mysensors.sensor as msn
    from mysensors import BaseSyncGateway
    from ..core import Result
    from ..drive import RecT
    from ..linesched import Explorer

    res = Result()
    version, new_type = job["version"], job["new_type"]
    wake = "1;255;3;0;32;500" if version >= "2.2" else "1;255;3;0;22;7"
    codes = []

    def nested(code):
        for c in code.co_consts:
            if hasattr(c, "co_code"):
                yield c
                yield from nested(c)

    for mod in (mh, msn):
        for _n, obj in inspect.getmembers(mod):
            if inspect.isfunction(obj) and obj.__module__ == mod.__name__:
                codes.append(obj.__code__)
            elif inspect.isclass(obj) and obj.__module__ == mod.__name__:
                for _m, f in inspect.getmembers(obj, inspect.isfunction):
                    codes.append(f.__code__)
    for _m, f in inspect.getmembers(mysensors.Gateway, inspect.isfunction):
        codes.append(f.__code__)
    codes += [c for top in list(codes) for c in nested(top)]
    ex = Explorer(list(dict.fromkeys(codes)), "line")

    def drain(gw):
        while gw.tasks.queue:
            gw.tasks.transport.send(gw.tasks.run_job())

    def make(explorer):
        t = RecT()
        gw = BaseSyncGateway(t, protocol_version=version)
        for line in (f"1;255;0;0;17;{version}", "1;1;0;0;4;dimmer", "1;1;1;0;2;0", "1;1;1;0;3;10", wake):
            gw.tasks.add_job(gw.logic, line)
            drain(gw)
        gw.set_child_value(1, 1, 2, "1")          # pending desired V_STATUS
        if not new_type:
            gw.set_child_value(1, 1, 3, "20")     # V_PERCENTAGE has been set before as well
        drain(gw)
        n0 = len(t.log)
        ctx = {"gw": gw, "t": t, "n0": n0}

        def a():
            if job.get("a_is") == "report":
                gw.tasks.transport.send(gw.logic("1;1;1;0;2;1"))      # the node reports the pending V_STATUS value
            else:
                gw.tasks.transport.send(gw.logic(wake))

        def b():
            gw.set_child_value(1, 1, 3, "50")
        return a, b, ctx

    ex.install()
    try:
        for run, ctx, stuck, sched in ex.explore(make, job["bound"], max_runs=4000):
            res.evals += 1
            res.count("controller_vs_wakeup_schedules")
            case = {"kind": "sched", "version": version, "new_type": new_type, "schedule": sched, "bound": job["bound"], "a_is": job.get("a_is")}
            if stuck:
                res.count("stuck_schedules")
                continue
            bad = False
            for who, exc in run.errors.items():
                role = "wake-up handling (poll thread)" if who == "A" else "set_child_value (controller thread)"
                res.violation(f"sched:{'pump' if who == 'A' else 'controller'}-raises:{core.exc_sig(exc)}",
                              f"{role} raised {type(exc).__name__}: {exc} under schedule {sched}", case)
                bad = True
            if bad:
                continue
            gw, t = ctx["gw"], ctx["t"]
            drain(gw)
            first = [l for l in t.log[ctx["n0"]:]]
            gw.tasks.transport.send(gw.logic(wake))
            drain(gw)
            allsent = [l for l in t.log[ctx["n0"]:]]
            n_status = sum(1 for l in first if l.startswith("1;1;1;") and l.rstrip().endswith(";2;1"))
            n_new = sum(1 for l in allsent if l.startswith("1;1;1;") and l.rstrip().endswith(";3;50"))
            if job.get("a_is") == "report":
                # the report settled the pending V_STATUS: it is never sent again, at no later wake-up
                gw.tasks.transport.send(gw.logic(wake))
                drain(gw)
                later = [l for l in t.log[ctx["n0"]:]]
                n_again = sum(1 for l in later if l.startswith("1;1;1;") and l.rstrip().endswith(";2;1"))
                if n_again:
                    res.violation("sched:reported-value-sent-again", f"the node reported the pending value while the controller set another one; the reported value was sent {n_again} times at later wake-ups ({later!r}) under schedule {sched}", case)
                if n_new < 1:
                    res.violation("sched:concurrently-set-value-never-sent", f"the value set while the report was stored was never sent ({later!r}) under schedule {sched}", case)
                if run.switches:
                    res.count("controller_vs_wakeup_schedules_with_real_interleaving")
                    res.nontrivial(("sched-report", version, sched["first"], tuple(i for i, c in enumerate(sched["choices"]) if c)))
                continue
            if n_status != 1:
                res.violation(f"sched:pending-value-sent-{n_status}-times", f"the value pending before the wake-up was sent {n_status} times in its burst ({first!r}) under schedule {sched}", case)
            if n_new < 1:
                res.violation("sched:concurrently-set-value-never-sent", f"the value set while the node woke up was sent neither in this burst nor in the next ({allsent!r}) under schedule {sched}", case)
            if run.switches:
                res.count("controller_vs_wakeup_schedules_with_real_interleaving")
                res.nontrivial(("sched", version, new_type, sched["first"], tuple(i for i, c in enumerate(sched["choices"]) if c)))
    finally:
        ex.uninstall()
    return res


def run(job):
    if job.get("kind") == "sched":
        return run_sched(job)
    return run_lock_job(ID, job, normal_forms)


def replay(case):
    if case.get("kind") == "sched":
        return run_sched({"kind": "sched", "version": case["version"], "new_type": case["new_type"], "bound": case.get("bound", 1), "a_is": case.get("a_is")})
    return replay_lock(ID, case)


def finish(agg, tier):
    c = agg["counters"]
    return {
        "rule": "histories over 2.0-2.2 weighted to wake-ups, value reports/requests, late presentations, reboot requests and "
                "controller set calls (value types as int / numeric str / junk; values of every rule class; nodes presenting "
                "1.4, 1.5, 2.x or never presented). At every wake-up the attributed sends must be the withheld lines oldest-first "
                "followed by one set per reported-and-pending value (multiset), nothing else; requests must carry the pending "
                "desired value; a call that returns normally must be sendable for the gateway version. distinct = (version, "
                "kinds of withheld lines in order, number of desired sets) of a burst; non-trivial when >= 2 lines were released.",
        "floors": [("bursts_judged", c.get("bursts_judged", 0), 2000), ("bursts_releasing_2plus", c.get("bursts_releasing_2plus", 0), 500),
                   ("bursts_with_desired_sets", c.get("bursts_with_desired_sets", 0), 300),
                   ("requests_answered_with_desired", c.get("requests_answered_with_desired", 0), 100),
                   ("desired_stored", c.get("desired_stored", 0), 500),
                   ("controller_vs_wakeup_schedules_with_real_interleaving", c.get("controller_vs_wakeup_schedules_with_real_interleaving", 0), 300),
                   ("reloads", c.get("reloads", 0), 200)],
        "assumptions": ["in a third of the histories the node table goes through the persistence file (json / pickle) and back at random points: the tree survives, sleep state, withheld replies, desired values and reboot flags start empty",
                        "order among the desired-value sets of a burst and their ack flag are not judged"],
        "show": ["histories", "bursts_judged", "bursts_releasing_2plus", "bursts_with_desired_sets", "requests_answered_with_desired",
                 "desired_stored", "controller_sets_refused"],
    }
