"""C08 - withheld traffic reaches the sleeping node exactly once, in order."""
from ..lockprops import make_jobs, replay_lock, run_lock_job

ID = "C08"
LEVEL = "exploration"
PROFILE = {"garbage": 0.05, "ctl": 0.25, "semicolon": False, "sleep": True, "ota": True, "reload": 0.05, "unicode": 0.1}


def jobs(tier, seed):
    q = tier == "quick"
    return make_jobs(seed, 32 if q else 128, 50 if q else 220, 80, ["2.0", "2.1", "2.2"], ["sync", "async"], PROFILE)


def normal_forms(res, cfg, steps, out):
    for held, nsets, ngot in out.bursts:
        if ngot >= 2:
            res.nontrivial((cfg["version"], held, nsets))
            res.count("bursts_releasing_2plus")
        if nsets:
            res.count("bursts_with_desired_sets")
    for k in out.kinds:
        if k == "req-desired":
            res.count("requests_answered_with_desired")
        if k == "ctl-set-refused":
            res.count("controller_sets_refused")


def run(job):
    return run_lock_job(ID, job, normal_forms)


def replay(case):
    return replay_lock(ID, case)


def finish(agg, tier):
    c = agg["counters"]
    return {
        "rule": "histories over 2.0-2.2 weighted to wake-ups, value reports/requests, late presentations, reboot requests and "
                "controller set calls (value types as int / numeric str / junk; values of every rule class; nodes presenting "
                "1.4, 1.5, 2.x or never presented). At every wake-up the attributed sends must be the withheld lines oldest-first "
                "followed by one set per reported-and-pending value (multiset), nothing else; requests must carry the pending "
                "desired value; a call that returns normally must be sendable for the gateway version. distinct = (version, "
                "kinds of withheld lines in order, number of desired sets) of a burst; non-trivial when >= 2 lines were released.",
        "floors": [("bursts_judged", c.get("bursts_judged", 0), 2000), ("bursts_releasing_2plus", c.get("bursts_releasing_2plus", 0), 500),
                   ("bursts_with_desired_sets", c.get("bursts_with_desired_sets", 0), 300),
                   ("requests_answered_with_desired", c.get("requests_answered_with_desired", 0), 100),
                   ("desired_stored", c.get("desired_stored", 0), 500),
                   ("reloads", c.get("reloads", 0), 200)],
        "assumptions": ["in a third of the histories the node table goes through the persistence file (json / pickle) and back at random points: the tree survives, sleep state, withheld replies, desired values and reboot flags start empty",
                        "order among the desired-value sets of a burst and their ack flag are not judged"],
        "show": ["histories", "bursts_judged", "bursts_releasing_2plus", "bursts_with_desired_sets", "requests_answered_with_desired",
                 "desired_stored", "controller_sets_refused"],
    }
