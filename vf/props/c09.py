"""C09 - OTA serves exactly the firmware it advertised."""
import os
import shutil
import struct
import tempfile

from .. import core
from ..core import Result
from ..model import crc16_modbus

ID = "C09"
LEVEL = "exploration"
TIMEOUT = {"quick": 900, "thorough": 5400}


def boundary_lengths(step128):
    L = set()
    for m in range(16, 1025, 16):
        for d in (-2, -1, 0, 1, 2):
            L.add(m + d)
    for m in range(128, 32769, 128 * step128):
        for d in (-2, -1, 0, 1, 2):
            if 1 <= m + d <= 32768:
                L.add(m + d)
    L.update([1, 2, 3, 32766, 32767, 32768])
    return sorted(x for x in L if 1 <= x <= 32768)


def jobs(tier, seed):
    q = tier == "quick"
    lens = boundary_lengths(8 if q else 1)
    rng = core.rng_for(ID, "lens", seed)
    lens += [rng.randint(1, 32768) for _ in range(40 if q else 3000)]
    rng.shuffle(lens)
    n = 32 if q else 128
    return [{"seed": seed, "i": i, "lengths": lens[i::n]} for i in range(n)]


def ihex(data, base, rng, holes=()):
    """Independent Intel-HEX encoder: random record lengths, optional 04/05 records, optional address holes
    (no record covers the bytes of a hole)."""
    def rec(addr, typ, payload):
        b = bytes([len(payload), (addr >> 8) & 0xFF, addr & 0xFF, typ]) + payload
        return ":" + (b + bytes([(-sum(b)) & 0xFF])).hex().upper()
    out = []
    if rng.random() < 0.5:
        out.append(rec(0, 4, struct.pack(">H", 0)))
    pos = 0
    while pos < len(data):
        n = rng.choice([16, 16, 16, 32, 1, 7, 8, 255]) if rng.random() < 0.5 else 16
        hole = next(((a, b) for a, b in holes if a <= pos < b), None)
        if hole:
            pos = hole[1]
            continue
        nxt = min([a for a, b in holes if a > pos] + [len(data)])
        chunk = data[pos:min(pos + n, nxt)]
        addr = base + pos
        # keep a record inside one 64K segment
        room = 0x10000 - (addr & 0xFFFF)
        chunk = chunk[:room]
        if (addr >> 16) and (addr & 0xFFFF) == 0 or (pos == 0 and addr >> 16):
            out.append(rec(0, 4, struct.pack(">H", addr >> 16)))
        out.append(rec(addr & 0xFFFF, 0, chunk))
        pos += len(chunk)
    if rng.random() < 0.3:
        out.append(rec(0, 5, struct.pack(">I", 0)))
    out.append(rec(0, 1, b""))
    return "\n".join(out) + "\n"


def words(hexstr, n):
    if len(hexstr) != 4 * n:
        return None
    try:
        return struct.unpack(f"<{n}H", bytes.fromhex(hexstr))
    except ValueError:
        return None


def le(*ws):
    return struct.pack(f"<{len(ws)}H", *ws).hex().upper()


def serve_case(res, rng, length, tmp):
    from ..drive import Engine, PumpDied

    version = rng.choice(["1.4", "1.5", "2.0", "2.1", "2.2"])
    flavour = rng.choice(["sync", "async"])
    content = rng.choice(["random", "random", "zeros", "ff", "ramp"])
    if content == "random":
        img = bytes(rng.getrandbits(8) for _ in range(length)) if length < 4096 else rng.randbytes(length)
    elif content == "zeros":
        img = b"\x00" * length
    elif content == "ff":
        img = b"\xff" * length
    else:
        img = bytes(i & 0xFF for i in range(length))
    ft = rng.choice([0, 1, 255, 256, 65534, 65535, rng.randint(0, 65535)])
    fv = rng.choice([0, 1, 255, 256, 65534, 65535, rng.randint(0, 65535)])
    nodes = rng.sample([1, 2, 3, 200, 254], rng.choice([1, 1, 2, 3]))
    via_hex = rng.random() < 0.35
    case = {"length": length, "version": version, "flavour": flavour, "content": content, "type": ft, "ver": fv,
            "nodes": nodes, "via_hex": via_hex, "seed_note": "content regenerated from (length, content) unless random"}
    eng = Engine(flavour, version)
    try:
        for n in nodes:
            eng.feed(f"{n};255;0;0;17;{version}")
        if rng.random() < 0.3:
            # a second gateway in the same process serves another firmware to its own node, and it does so from inside
            # this gateway's event callback (i.e. between the moment a response is built here and the moment it leaves)
            eng2 = Engine(flavour, version)
            eng2.feed(f"9;255;0;0;17;{version}")
            oimg2 = bytes((b * 7 + 3) & 0xFF for b in range(rng.choice([48, 128, 300])))
            eng2.call("fw", 9, 7, 7, oimg2)
            eng2.feed(f"9;255;4;0;0;{le(7, 7, 5, 0x1111, 0x0101)}")
            pad2 = oimg2 + b"\xff" * ((-len(oimg2)) % 128)
            state2 = {"n": 0, "bad": None}

            def other_gateway_at_work(msg):
                if msg.type != 4:
                    return
                i2 = state2["n"] % (len(pad2) // 16)
                state2["n"] += 1
                m0 = len(eng2.sent)
                eng2.feed(f"9;255;4;0;2;{le(7, 7, i2)}")
                got2 = [l for (_s, _o, l) in eng2.sent[m0:]]
                if state2["bad"] is None and (len(got2) != 1 or got2[0].rstrip("\n").split(";")[:5] != ["9", "255", "4", "0", "3"]
                                              or got2[0].rstrip("\n").split(";")[5][12:].lower() != pad2[16 * i2:16 * i2 + 16].hex()):
                    state2["bad"] = (i2, got2)

            eng.cb_hook = other_gateway_at_work
            case["second_gateway"] = True
            res.count("cases_with_a_second_gateway_at_work")
        # --- history before the image under test: an earlier image under the SAME (type, version), partly fetched,
        #     and/or another firmware being served to another node at the same time
        prior = rng.choice(["none", "none", "same-id-reloaded", "other-firmware-in-parallel", "same-id-reloaded"])
        case["prior"] = prior
        other = None
        if prior == "same-id-reloaded":
            old_len = rng.choice([length, max(1, length // 2), length + 160, 300])
            old_img = bytes((b + 1) & 0xFF for b in (rng.randbytes(old_len)))
            eng.call("fw", nodes, ft, fv, old_img)
            for n in nodes[:1]:
                n0 = len(eng.sent)
                eng.feed(f"{n};255;4;0;0;{le(ft, fv, 5, 0x1111, 0x0101)}")
                got = [l for (_s, _o, l) in eng.sent[n0:]]
                w = words(got[0].rstrip("\n").split(";")[5], 4) if got else None
                if w:
                    for i in sorted(set([0, 1, w[2] - 1] + [rng.randrange(w[2]) for _ in range(12)])):
                        eng.feed(f"{n};255;4;0;2;{le(ft, fv, i)}")
            res.count("reloaded_same_id_cases")
        elif prior == "other-firmware-in-parallel":
            eng.feed(f"77;255;0;0;17;{version}")
            oft, ofv = (ft + 1) % 65536, fv
            oimg = rng.randbytes(rng.choice([40, 128, 500]))
            if not via_hex and rng.random() < 0.4:
                oimg = img          # the very same build registered under two labels (a type per board, one binary)
                res.count("parallel_firmware_with_the_same_bytes")
            eng.call("fw", 77, oft, ofv, oimg)
            eng.feed(f"77;255;4;0;0;{le(oft, ofv, 5, 0x1111, 0x0101)}")
            other = (77, oft, ofv, oimg)
            res.count("parallel_firmware_cases")
        if via_hex:
            base = rng.choice([0, 0, 0x100, 0x7000])
            path = os.path.join(tmp, f"fw{os.getpid()}.hex")
            holes = []
            if length > 8 and rng.random() < 0.4:
                # data records leave address holes (alignment gaps, a table placed higher up): the file then encodes
                # the span from the lowest to the highest address with the unprogrammed bytes reading 0xFF
                for _ in range(rng.randint(1, 2)):
                    a = rng.randrange(1, length - 1)
                    b = min(length - 1, a + rng.choice([1, 2, 15, 16, 54, 200]))
                    holes.append((a, b))
                mutable = bytearray(img)
                for a, b in holes:
                    mutable[a:b] = b"\xff" * (b - a)
                img = bytes(mutable)
                case["holes"] = holes
                res.count("intel_hex_with_holes")
            with open(path, "w", encoding="utf-8") as fh:
                fh.write(ihex(img, base, rng, holes))
            err = eng.call("fwpath", nodes if len(nodes) > 1 or rng.random() < 0.5 else nodes[0], ft, fv, path)
            os.remove(path)
            res.count("intel_hex_loads")
        else:
            err = eng.call("fw", nodes if len(nodes) > 1 or rng.random() < 0.5 else nodes[0], ft, fv, img)
        if err is not None:
            res.violation(f"update-raises:{core.exc_sig(err)}", f"update_fw raised {type(err).__name__}: {err}", case)
            return
        if rng.random() < 0.3:
            # the documented short form: the firmware is loaded already, further updates name only its type and version
            # (node by node, and once more for a node that is already scheduled)
            k = 0
            for n in nodes[1:] + rng.sample(nodes, rng.randint(1, len(nodes))):
                err = eng.call("fw", n, ft, fv, None)
                k += 1
                if err is not None:
                    res.violation(f"update-raises:{core.exc_sig(err)}:short-form", f"update_fw without a file raised {type(err).__name__}: {err}", case)
                    return
            case["short_form_calls"] = k
            res.count("updates_scheduled_without_a_file", k)
        # --- config response per node
        B = C = None
        for n in nodes:
            n0 = len(eng.sent)
            eng.feed(f"{n};255;4;0;0;{le(ft ^ 1 if rng.random() < 0.3 else ft, 0, 5, 0xABCD, 0x0101)}")
            got = [l for (_s, _o, l) in eng.sent[n0:]]
            if len(got) != 1 or not got[0].startswith(f"{n};255;4;0;1;"):
                res.violation("config-response-missing", f"node {n}: config request answered with {got!r}", case)
                return
            w = words(got[0].rstrip("\n").split(";")[5], 4)
            if w is None:
                res.violation("config-response-malformed", f"config response payload {got[0]!r}", case)
                return
            if (w[0], w[1]) != (ft, fv):
                res.violation("config-response-wrong-firmware", f"advertised type/version {w[:2]} for update ({ft},{fv})", case)
            if B is not None and (B, C) != (w[2], w[3]):
                res.violation("config-response-depends-on-node", f"nodes got different block count / CRC: {(B, C)} vs {w[2:]}", case)
            B, C = w[2], w[3]
        # --- block requests: order classes
        order_kind = rng.choice(["identity", "reverse", "shuffle-repeat", "interleaved"])
        idxs = list(range(B))
        if order_kind == "reverse":
            idxs.reverse()
        elif order_kind == "shuffle-repeat":
            idxs = idxs + [rng.randrange(B) for _ in range(min(B, 40))]
            rng.shuffle(idxs)
        reqs = []
        if order_kind == "interleaved" and len(nodes) > 1:
            for i in idxs:
                for n in nodes:
                    reqs.append((n, i))
            rng.shuffle(reqs)
        else:
            for i in idxs:
                reqs.append((rng.choice(nodes), i))
        blocks = {}
        for (n, i) in reqs:
            if other is not None and rng.random() < 0.2:
                # the other node keeps fetching its own firmware in between
                on, oft, ofv, oimg = other
                oi = rng.randrange((len(oimg) + 127) // 128 * 8)
                m0 = len(eng.sent)
                eng.feed(f"{on};255;4;0;2;{le(oft, ofv, oi)}")
                og = [l for (_s, _o, l) in eng.sent[m0:]]
                opad = oimg + b"\xff" * ((-len(oimg)) % 128)
                want = opad[16 * oi:16 * oi + 16]
                if len(og) != 1 or og[0].rstrip("\n").split(";")[5][12:].lower() != want.hex():
                    res.violation("parallel-firmware-block-wrong", f"node {on} fetching firmware ({oft},{ofv}) block {oi} got {og!r}", case)
                    return
                if words(og[0].rstrip("\n").split(";")[5][:12], 3) != (oft, ofv, oi):
                    res.violation("parallel-firmware-block-echo", f"node {on} asked for block {oi} of firmware ({oft},{ofv}); the response echoes "
                                  f"{words(og[0].rstrip(chr(10)).split(';')[5][:12], 3)}", case)
                    return
            if other is not None and rng.random() < 0.2:
                # a node updating to (ft, fv) asks for a block of the other loaded firmware (late or retransmitted request
                # from an earlier update): whatever is answered must be the block of the firmware the response names
                on, oft, ofv, oimg = other
                oi = rng.randrange((len(oimg) + 127) // 128 * 8)
                m0 = len(eng.sent)
                eng.feed(f"{n};255;4;0;2;{le(oft, ofv, oi)}")
                og = [l for (_s, _o, l) in eng.sent[m0:]]
                res.count("cross_firmware_requests")
                for l in og:
                    f = l.rstrip("\n").split(";")
                    if f[:5] != [str(n), "255", "4", "0", "3"]:
                        continue
                    hd = words(f[5][:12], 3)
                    named = {(ft, fv): img + b"\xff" * ((-len(img)) % 128), (oft, ofv): oimg + b"\xff" * ((-len(oimg)) % 128)}.get((hd[0], hd[1])) if hd else None
                    res.count("cross_firmware_responses")
                    if hd is None or named is None or hd[2] != oi or f[5][12:].lower() != named[16 * oi:16 * oi + 16].hex():
                        res.violation("block-response-label-does-not-name-its-data",
                                      f"node {n} (updating to ({ft},{fv})) asked for block {oi} of loaded firmware ({oft},{ofv}); the response "
                                      f"{l!r} does not carry block {oi} of the firmware it names", case)
                        return
            n0 = len(eng.sent)
            eng.feed(f"{n};255;4;0;2;{le(ft, fv, i)}")
            got = [l for (_s, _o, l) in eng.sent[n0:]]
            res.count("block_requests")
            if len(got) != 1 or not got[0].startswith(f"{n};255;4;0;3;"):
                res.violation("block-response-missing", f"node {n} block {i}: got {got!r}", case)
                return
            p = got[0].rstrip("\n").split(";")[5]
            head = words(p[:12], 3)
            if head != (ft, fv, i):
                res.violation("block-response-echo", f"block {i} response echoes {head}, wanted {(ft, fv, i)}", case)
                return
            try:
                data = bytes.fromhex(p[12:])
            except ValueError:
                res.violation("block-response-malformed", f"block {i} data {p[12:]!r}", case)
                return
            if len(data) != 16:
                res.violation("block-response-length", f"block {i} carries {len(data)} bytes", case)
                return
            if i in blocks and blocks[i] != data:
                res.violation("block-response-unstable", f"block {i} served with different data on repetition / to another node", case)
                return
            blocks[i] = data
        if case.get("second_gateway"):
            res.count("second_gateway_requests", state2["n"])
            if state2["bad"] is not None:
                res.violation("second-gateway-block-wrong", f"the other gateway of the process (node 9, firmware (7,7)) got a wrong answer for block {state2['bad'][0]}: {state2['bad'][1]!r}", case)
        P = b"".join(blocks[i] for i in range(B))
        res.count("images_reassembled")
        ok = True
        if len(P) != 16 * B:
            ok = False
        if len(P) % 128 != 0:
            res.violation("length-not-page-multiple", f"served length {len(P)} for image {length}", case); ok = False
        if P[:length] != img:
            first = next((j for j in range(min(len(P), length)) if P[j] != img[j]), min(len(P), length))
            res.violation("image-bytes-differ", f"served bytes differ from the image at offset {first} (length {length})", case); ok = False
        pad = P[length:]
        if len(pad) > 128:
            res.violation("padding-too-long", f"{len(pad)} padding bytes for image length {length}", case); ok = False
        if pad.strip(b"\xff"):
            res.violation("padding-not-ff", f"padding of image length {length} is not all 0xFF", case); ok = False
        if len(P) < length:
            res.violation("image-truncated", f"served {len(P)} bytes for image length {length}", case); ok = False
        if crc16_modbus(P) != C:
            res.violation("crc-mismatch", f"advertised CRC {C:#06x}, CRC-16/MODBUS of the served blocks is {crc16_modbus(P):#06x} (length {length})", case); ok = False
        bucket = 0 if length < 128 else 1 if length < 1024 else 2 if length < 8192 else 3
        res.nontrivial((length % 16, length % 128, bucket, order_kind, len(nodes), via_hex, prior))
        res.sample({k: case[k] for k in ("length", "version", "flavour", "content", "type", "ver", "nodes", "via_hex")} | {"order": order_kind, "blocks": B})
    except PumpDied:
        res.violation(f"raises:{core.exc_sig(eng.pump_exc)}", f"OTA handling raised {type(eng.pump_exc).__name__}: {eng.pump_exc}", case)


def run(job):
    res = Result()
    rng = core.rng_for(ID, job["seed"], job["i"])
    tmp = tempfile.mkdtemp(prefix="vf-c09-")
    try:
        for length in job["lengths"]:
            res.evals += 1
            serve_case(res, rng, length, tmp)
    finally:
        shutil.rmtree(tmp, ignore_errors=True)
    return res


def replay(case):
    res = Result()
    tmp = tempfile.mkdtemp(prefix="vf-c09-")
    try:
        for s in range(6):
            serve_case(res, core.rng_for("c09-replay", s), case["length"], tmp)
    finally:
        shutil.rmtree(tmp, ignore_errors=True)
    return res


def finish(agg, tier):
    c = agg["counters"]
    return {
        "rule": "image lengths: all within +-2 of every multiple of 16 up to 1024 and of every (quick: every 8th) multiple of 128 "
                "up to 32768, plus random lengths; contents random / 00 / FF / ramp; type and version from {0,1,255,256,65534,65535, "
                "random}; loaded as binary or through an independently encoded Intel-HEX file (random record lengths, 04/05 records, "
                "non-zero base); 1-3 updating nodes; blocks requested in identity / reverse / shuffled-with-repeats / interleaved "
                "order through Gateway.logic. The served blocks are reassembled and checked: length 16*B, multiple of 128, image "
                "prefix, <= 128 bytes of 0xFF padding, independent CRC-16/MODBUS == advertised, echo of (type, version, index), "
                "stability across repeats and nodes. Histories before the image under test: none / a different image loaded "
                "under the same (type, version) and partly fetched / another firmware served to another node in parallel (with the nodes under test also asking for blocks of that other loaded firmware: the response must carry the block of the firmware it names). distinct = "
                "(len mod 16, len mod 128, size bucket, order class, #nodes, hex?, prior history).",
        "floors": [("images_reassembled", c.get("images_reassembled", 0), 300), ("block_requests", c.get("block_requests", 0), 100000),
                   ("intel_hex_loads", c.get("intel_hex_loads", 0), 80), ("intel_hex_with_holes", c.get("intel_hex_with_holes", 0), 20),
                   ("reloaded_same_id_cases", c.get("reloaded_same_id_cases", 0), 80), ("parallel_firmware_cases", c.get("parallel_firmware_cases", 0), 40),
                   ("cross_firmware_responses", c.get("cross_firmware_responses", 0), 500),
                   ("updates_scheduled_without_a_file", c.get("updates_scheduled_without_a_file", 0), 100)],
        "assumptions": ["independent bitwise CRC-16/MODBUS (poly 0xA001, init 0xFFFF)"],
        "show": ["images_reassembled", "block_requests", "intel_hex_loads", "cross_firmware_responses"],
    }
