"""C02 - wire codec is a faithful, canonical round trip."""
import itertools
import re

from .. import core, gen
from ..core import Result

ID = "C02"
LEVEL = "exploration"
FIELDS = ["node_id", "child_id", "type", "ack", "sub_type", "payload"]
CANON = re.compile(r"^(-?[0-9]+);(-?[0-9]+);(-?[0-9]+);(-?[0-9]+);(-?[0-9]+);([^;\n]*)\n$", re.S)


def jobs(tier, seed):
    return _jobs(tier, seed) + [{"suite": True}] + [{"threads": True, "seed": seed, "i": i} for i in range(2 if tier == "quick" else 8)]


def run_threads(job, res):
    """What encode / decode / copy return is a function of the message alone: not of what another thread (the application
    thread sending a command while the poll thread builds a reply; a second gateway) encodes at the same moment."""
    import sys
    import threading

    from mysensors.message import Message

    rng = core.rng_for("c02-threads", job["seed"], job["i"])
    pool = []
    for n in (1, 5, 6, 255, 0):
        for c in (0, 1, 255):
            for (t, st) in ((1, 2), (1, 0), (3, 6), (0, 17), (2, 2), (4, 3)):
                for a in (0, 1):
                    pool.append([n, c, t, a, st, gen.payload(rng)[0] if rng.random() < 0.5 else rng.choice(["1", "0", "20.5", ""])])
    rng.shuffle(pool)
    pool = pool[:60]
    # few distinct headers, used again and again in alternation (what a memo of recent work would key on)
    hot = [pool[k % 4][:5] + [str(k)] for k in range(8)]
    cases = [(f, canon_format(f)) for f in pool + hot * 10]
    bad = []
    counts = [0, 0, 0]

    def worker(k, order):
        for _ in range(40):
            for f, want in order:
                m = Message(node_id=f[0], child_id=f[1], type=f[2], ack=f[3], sub_type=f[4], payload=f[5])
                e = m.encode()
                d = fields_of(Message(want))
                cp = fields_of(m.copy(ack=f[3]))
                counts[k] += 3
                if e != want:
                    bad.append(("encode", f, want, e))
                if d != f:
                    bad.append(("decode", f, want, d))
                if cp != f:
                    bad.append(("copy", f, want, cp))

    old = sys.getswitchinterval()
    sys.setswitchinterval(1e-6)
    try:
        ts = [threading.Thread(target=worker, args=(0, cases)), threading.Thread(target=worker, args=(1, list(reversed(cases)))),
              threading.Thread(target=worker, args=(2, cases[len(cases) // 2:] + cases[:len(cases) // 2]))]
        for t in ts:
            t.start()
        for t in ts:
            t.join(600)
    finally:
        sys.setswitchinterval(old)
    # and what the threads left behind must not show in later single-threaded use
    for f, want in cases[:200]:
        e = Message(node_id=f[0], child_id=f[1], type=f[2], ack=f[3], sub_type=f[4], payload=f[5]).encode()
        counts[0] += 1
        if e != want:
            bad.append(("encode-afterwards", f, want, e))
    res.evals += sum(counts)
    res.count("concurrent_codec_calls", sum(counts))
    for (what, f, want, got) in bad[:5]:
        res.violation(f"codec-result-depends-on-concurrent-calls:{what}", f"{what} of {f!r}: {got!r} instead of {want!r} while other threads use the codec",
                      {"mode": "threads", "fields": f[:5], "payload": f[5]})
    res.nontrivial(("threads", job["i"]))


def _jobs(tier, seed):
    n = 16 if tier == "quick" else 64
    per = 20000 if tier == "quick" else 120000
    return [{"seed": seed, "i": i, "n": per} for i in range(n)]


def canon_format(f):
    return "%d;%d;%d;%d;%d;%s\n" % tuple(f)


def canon_parse(line):
    m = CANON.match(line)
    if not m:
        return None
    return [int(m.group(i)) for i in range(1, 6)] + [m.group(6)]


def fields_of(msg):
    return [msg.node_id, msg.child_id, msg.type, msg.ack, msg.sub_type, msg.payload]


def enum_members():
    from mysensors.const import get_const

    out = []
    for v in ["1.4", "1.5", "2.0", "2.1", "2.2"]:
        c = get_const(v)
        for en in (c.MessageType, c.Presentation, c.SetReq, c.Internal, c.Stream):
            out.extend(list(en.__members__.values()))
    return out


def check_encode_decode(res, rng, enums):
    from mysensors.message import Message

    kinds = []
    vals = []
    for _ in range(5):
        k = rng.random()
        if k < 0.15:
            v = rng.choice(enums)
            kinds.append("enum")
        elif k < 0.2:
            v = rng.choice([True, False])
            kinds.append("bool")
        else:
            v = gen.int_value(rng)
            kinds.append("neg" if v < 0 else "big" if v > 255 else "small")
        vals.append(v)
    p, cat = gen.payload(rng)
    case = {"mode": "encdec", "fields": [int(x) for x in vals], "kinds": kinds, "payload": p}
    res.evals += 1
    try:
        m = Message(node_id=vals[0], child_id=vals[1], type=vals[2], ack=vals[3], sub_type=vals[4], payload=p)
        e = m.encode()
        if e is None:
            res.violation("encode-none:carriable", f"encode() returned None for integer fields {case['fields']} payload {p!r}", case)
            return
        d = Message(e)
    except Exception as exc:
        res.violation(f"encdec-raises:{core.exc_sig(exc)}", f"encode/decode raised {type(exc).__name__}: {exc}", case)
        return
    want = [int(x) for x in vals] + [p]
    got = fields_of(d)
    if got != want or any(type(a) is not type(b) for a, b in zip(got, want)):
        bad = [FIELDS[i] for i in range(6) if got[i] != want[i] or type(got[i]) is not type(want[i])]
        res.violation(f"roundtrip-differs:{','.join(bad)}:{cat if 'payload' in bad else 'ints'}",
                      f"decode(encode(m)) differs in {bad}: want {want!r} got {got!r}", case)
    if e != canon_format(want):
        res.violation("encode-not-canonical", f"encode() gave {e!r}, canonical is {canon_format(want)!r}", case)
    res.count("encdec")
    if p or any(k != "small" for k in kinds):
        res.nontrivial(("encdec", tuple(sorted(set(kinds))), cat))
    res.sample(case)


def check_decode_encode(res, rng):
    from mysensors.message import Message

    ints, kinds = [], []
    for _ in range(5):
        v = gen.int_value(rng)
        s, k = gen.spell(rng, v, None if rng.random() < 0.6 else "plain")
        ints.append((v, s))
        kinds.append(k)
    p, cat = gen.payload(rng)
    tail = rng.choice(["", "\n", "\r\n", "  ", "\t\n", "\r", " \r\n", "\n\n"])
    line = ";".join(s for _, s in ints) + ";" + p + tail
    case = {"mode": "decenc", "line": line}
    res.evals += 1
    try:
        m = Message(line)
    except ValueError:
        # int() accepted every spelling and the payload is carriable: the line must decode
        res.violation(f"decode-rejects:{','.join(sorted(set(kinds)))}", f"line {line!r} with int()-acceptable fields does not decode", case)
        return
    except Exception as exc:
        res.violation(f"decode-raises:{core.exc_sig(exc)}", f"decode raised {type(exc).__name__}", case)
        return
    want = [v for v, _ in ints] + [p]
    got = fields_of(m)
    if got != want:
        bad = [FIELDS[i] for i in range(6) if got[i] != want[i]]
        res.violation(f"decode-wrong:{','.join(bad)}:{','.join(sorted(set(kinds))) if bad != ['payload'] else cat}",
                      f"decode of {line!r}: want {want!r} got {got!r}", case)
        return
    try:
        e = m.encode()
        par = canon_parse(e) if e is not None else None
        if e is None or par is None or e != canon_format(want):
            res.violation("reencode-not-canonical", f"re-encoding {line!r} gave {e!r}, canonical is {canon_format(want)!r}", case)
            return
        m2 = Message(e)
        if fields_of(m2) != want:
            res.violation("reencode-decodes-differently", f"{e!r} decodes to {fields_of(m2)!r}, want {want!r}", case)
        if m2.encode() != e:
            res.violation("encode-not-idempotent", f"encode(decode({e!r})) = {m2.encode()!r}", case)
    except Exception as exc:
        res.violation(f"reencode-raises:{core.exc_sig(exc)}", f"re-encode raised {type(exc).__name__}: {exc}", case)
        return
    res.count("decenc")
    if any(k != "plain" for k in kinds) or tail or p:
        res.nontrivial(("decenc", tuple(sorted(set(kinds))), cat, tail))
    res.sample(case)


def check_copy(res, rng, subsets):
    from mysensors.message import Message

    vals = [gen.int_value(rng) for _ in range(5)]
    p, cat = gen.payload(rng)
    gw = object() if rng.random() < 0.5 else None
    sub = rng.choice(subsets)
    kw = {}
    for f in sub:
        kw[f] = gen.payload(rng)[0] if f == "payload" else gen.int_value(rng)
    case = {"mode": "copy", "fields": vals, "payload": p, "replace": {k: v for k, v in kw.items()}}
    res.evals += 1
    try:
        m = Message(node_id=vals[0], child_id=vals[1], type=vals[2], ack=vals[3], sub_type=vals[4], payload=p, gateway=gw)
        before = fields_of(m)
        c = m.copy(**kw)
    except Exception as exc:
        res.violation(f"copy-raises:{core.exc_sig(exc)}", f"copy raised {type(exc).__name__}: {exc}", case)
        return
    want = [kw.get(f, o) for f, o in zip(FIELDS, before)]
    got = fields_of(c)
    if got != want:
        bad = [FIELDS[i] for i in range(6) if got[i] != want[i]]
        inside = [b for b in bad if b in kw]
        res.violation(f"copy-differs:{'replaced' if inside else 'kept'}:{','.join(bad)}",
                      f"copy({kw!r}) of {before!r} gave {got!r}, want {want!r}", case)
    if fields_of(m) != before:
        res.violation("copy-mutates-original", f"copy changed the original: {before!r} -> {fields_of(m)!r}", case)
    if c is m:
        res.violation("copy-returns-self", "copy returned the same object", case)
    if c.gateway is not gw:
        res.violation("copy-drops-gateway", "copy did not keep the gateway reference", case)
    res.count("copy")
    res.nontrivial(("copy", tuple(sub), cat))


def check_uncarriable(res, rng):
    """Outside the carriable domain nothing but ValueError may be raised."""
    from mysensors.message import Message

    k = rng.random()
    if k < 0.3:
        line = rng.choice(["1;2;3;4;5;a;b", "1;2;3;4;5", "", ";", "1;2;3;4;x;p", "1;2;3;4;5;p\n\n\n", "9" * 5000 + ";1;1;1;1;p",
                           "1;1;1;1;1;" + "x" * 100000, "\x00", "1;2;3;4;5;6;7;8;9", "1.0;1;1;1;1;", "1e3;1;1;1;1;", "0x10;1;1;1;1;", " ;1;1;1;1;"])
    else:
        line = gen.garbage_line(rng, "2.2")
    res.evals += 1
    try:
        Message(line)
        res.count("uncarriable_decoded")
    except ValueError:
        res.count("uncarriable_rejected")
    except Exception as exc:
        res.violation(f"decode-raises:{core.exc_sig(exc)}", f"decoding {line[:80]!r} raised {type(exc).__name__}", {"mode": "garbage", "line": line[:2000]})


def run(job):
    res = Result()
    if job.get("suite"):
        run_suite_under_contracts(res)
        res.evals += 1
        return res
    if job.get("threads"):
        run_threads(job, res)
        return res
    rng = core.rng_for("c02", job["seed"], job["i"])
    enums = enum_members()
    subsets = [list(c) for r in range(0, 7) for c in itertools.combinations(FIELDS, r)]
    res.add_set("copy_subsets_available", len(subsets))
    for i in range(job["n"]):
        m = i % 4
        if m == 0:
            check_encode_decode(res, rng, enums)
        elif m == 1:
            check_decode_encode(res, rng)
        elif m == 2:
            check_copy(res, rng, subsets)
        else:
            check_uncarriable(res, rng)
    if job["i"] == 0:
        # all 64 replaced-field subsets at least once, deterministically
        for sub in subsets:
            class R:  # tiny deterministic chooser
                def __init__(s, base): s.base = base
                def choice(s, seq): return sub if seq is subsets else s.base.choice(seq)
                def __getattr__(s, n): return getattr(s.base, n)
            check_copy(res, R(rng), subsets)
            res.count("copy_subsets_forced")
    return res


def replay(case):
    res = Result()
    from mysensors.message import Message

    mode = case.get("mode")
    if mode == "suite":
        run_suite_under_contracts(res)
        return res
    if mode == "threads":
        for i in range(3):
            run_threads({"seed": 0, "i": i}, res)
        return res
    if mode == "decenc" or mode == "garbage":
        try:
            m = Message(case["line"])
            e = m.encode()
            if e is None or canon_parse(e) is None or Message(e).encode() != e or fields_of(Message(e)) != fields_of(m):
                res.violation("replay:decenc", f"{case['line']!r} -> {e!r}", case)
        except ValueError:
            if mode == "decenc":
                res.violation("replay:decode-rejects", case["line"], case)
        except Exception as exc:
            res.violation(f"replay:raises:{core.exc_sig(exc)}", str(exc), case)
    elif mode == "encdec":
        f = case["fields"]
        m = Message(node_id=f[0], child_id=f[1], type=f[2], ack=f[3], sub_type=f[4], payload=case["payload"])
        e = m.encode()
        if e is None or fields_of(Message(e)) != f + [case["payload"]]:
            res.violation("replay:encdec", f"{f} {case['payload']!r} -> {e!r}", case)
    elif mode == "copy":
        f = case["fields"]
        m = Message(node_id=f[0], child_id=f[1], type=f[2], ack=f[3], sub_type=f[4], payload=case["payload"])
        c = m.copy(**case["replace"])
        want = [case["replace"].get(k, o) for k, o in zip(FIELDS, f + [case["payload"]])]
        if fields_of(c) != want:
            res.violation("replay:copy", f"{fields_of(c)!r} != {want!r}", case)
    return res


def finish(agg, tier):
    c = agg["counters"]
    return {
        "rule": "four interleaved generators: (encdec) integer fields from 8..128-bit boundaries / negatives / IntEnum members / "
                "bools x payloads stratified by Unicode category; (decenc) every int() spelling class (sign, zeros, blanks, "
                "underscores, Unicode digits) x payload category x line ending; (copy) all 64 replaced-field subsets; (garbage) "
                "uncarriable input must raise nothing but ValueError; plus the repository's own 730 tests run with encode/copy contracts "
                "(icontract) installed on the real Message class; (threads) three real threads encode, decode and copy messages over a few alternating headers at a switch interval of 1 us, each call checked against the independent formatter, then once more single-threaded. distinct = (mode, spelling/kind classes, payload category, "
                "subset); non-trivial when payload non-empty or a spelling/kind is non-canonical.",
        "floors": [("encdec", c.get("encdec", 0), 5000), ("decenc", c.get("decenc", 0), 5000),
                   ("copy", c.get("copy", 0), 5000), ("copy_subsets_forced", c.get("copy_subsets_forced", 0), 64),
                   ("concurrent_codec_calls", c.get("concurrent_codec_calls", 0), 50000),
                   ("contract_evaluations:Message.encode", c.get("contract_evaluations:Message.encode", 0), 200),
                   ("contract_evaluations:Message.copy", c.get("contract_evaluations:Message.copy", 0), 50)],
        "assumptions": ["carriable payload = str without ';', CR, LF and with payload == payload.rstrip()",
                        "integer fields up to 128 bits (Python's 4300-digit int/str limit is out of scope)"],
        "show": ["encdec", "decenc", "copy", "uncarriable_rejected", "uncarriable_decoded"],
    }


# ---------------------------------------------------------------------------
# the repository's own suite as one more workload: run it with the contracts of vf/contracts.py installed
def run_suite_under_contracts(res, which=("contract:encode", "contract:copy")):
    import json
    import os
    import subprocess
    import tempfile

    out = tempfile.mktemp(prefix="vf-suite-", suffix=".json")
    env = dict(os.environ, PYTHONPATH=os.pathsep.join([core.REPO, core.VERIF, core.DEPS]), VF_SUITE_OUT=out,
               PYTHONDONTWRITEBYTECODE="1")
    p = subprocess.run([core.PY, "-B", "-m", "pytest", "-q", "-p", "no:cacheprovider", "-p", "vf.suite_plugin", "--timeout=600", "tests"],
                       cwd=core.REPO, env=env, capture_output=True, text=True, timeout=900)
    try:
        with open(out) as fh:
            rec = json.load(fh)
    except Exception:
        res.notes.append(f"suite under contracts produced no record: rc={p.returncode} {p.stdout[-200:]}")
        return
    finally:
        if os.path.exists(out):
            os.remove(out)
    res.add_set("contracts_mode", rec.get("mode"))
    for k, v in rec["evaluations"].items():
        res.count("contract_evaluations:" + k, v)
    res.count("suite_runs_under_contracts")
    if p.returncode != 0:
        res.notes.append(f"repository suite not green under contracts: {p.stdout.strip().splitlines()[-1:]}")
    for v in rec["violations"]:
        if v["sig"].startswith(which):
            res.violation(v["sig"] + ":in-repo-suite", v["what"], {"mode": "suite", "sig": v["sig"]})
