"""Gateways with persistence enabled, driven with save ticks and stop/restart cycles (C06 C11 C14)."""
import os

from . import core
from .drive import Engine, PumpDied, projection, strict
from .fakes import TaskThreading, VLoop
from .lockstep import parse_canon

core.use_repo()
import mysensors.task as mtask  # noqa: E402

FAKE_THREADING = TaskThreading()
mtask.threading = FAKE_THREADING   # Timer captured for the life of this worker; everything else is real


class PGateway:
    """One gateway lifetime on a persistence file."""

    def __init__(self, flavour, version, path, mqtt=False, with_callback=True):
        self.flavour = flavour
        self.eng = Engine(flavour, version, mqtt=mqtt, persistence_file=path, with_callback=with_callback)
        self.gw = self.eng.gw
        self.loop = VLoop() if flavour == "async" else None
        self.tick_errors = []
        self.started = False

    def start(self):
        if self.flavour == "sync":
            self.gw.start_persistence()
        else:
            self.loop.run_until_complete(self.gw.start_persistence())
            self.loop.settle()
        self.started = True

    def tick(self):
        """One period of the save schedule."""
        if self.flavour == "sync":
            live = [t for t in FAKE_THREADING.live() if getattr(t.function, "__name__", "") == "schedule_save"]
            # with several gateways in the process: the timer whose closure saves THIS gateway's nodes
            mine = [t for t in live if any(getattr(getattr(c, "cell_contents", None), "__self__", None) is getattr(self.gw.tasks, "persistence", None)
                                           for c in (getattr(t.function, "__closure__", None) or ()))]
            live = mine or live
            if not live:
                return False
            exc = live[-1].fire()
            if exc is not None:
                self.tick_errors.append(exc)
            return True
        self.loop.advance(10.0)
        self.loop.settle()
        return True

    def stop(self, late_line=None):
        """stop(); with late_line, the device sends one more line right after a save completes during stop(),
        delivered only if the transport has not been closed by then (a closed link delivers nothing)."""
        undo = None
        fed = []
        if late_line is not None:
            from mysensors.persistence import Persistence

            orig = Persistence.save_sensors
            eng = self.eng

            def save_sensors(pself):
                r = orig(pself)
                if not fed and getattr(eng.t, "disconnected", 1) == 0:
                    fed.append(late_line)
                    try:
                        eng.feed(late_line)
                    except Exception:
                        pass
                return r

            Persistence.save_sensors = save_sensors

            def undo():
                Persistence.save_sensors = orig
        try:
            if self.flavour == "sync":
                self.gw.stop()
            else:
                self.loop.run_until_complete(self.gw.stop())
                self.loop.settle()
        finally:
            if undo:
                undo()
            for t in FAKE_THREADING.live():
                t.cancel()
        return bool(fed)

    def stop_during_tick(self, line, pause="fsync"):
        """Threaded flavour: a periodic save is in flight in the timer thread (it has serialised the state and waits in
        fsync) when one more state-changing line arrives and the user calls stop(); the timer thread finishes afterwards.
        Returns True if the overlap really happened."""
        import threading
        import mysensors.persistence as mp

        live = [t for t in FAKE_THREADING.live() if getattr(t.function, "__name__", "") == "schedule_save"]
        if self.flavour != "sync" or not live:
            if line is not None:
                self.eng.feed(line)
            self.stop()
            return False
        timer = live[-1]
        in_fsync, release = threading.Event(), threading.Event()
        real_os = mp.os
        tick_ident = []

        class OsProxy:
            def __getattr__(self, name):
                return getattr(real_os, name)

            @staticmethod
            def fsync(fd):
                real_os.fsync(fd)
                if tick_ident and threading.get_ident() == tick_ident[0] and not release.is_set():
                    in_fsync.set()
                    release.wait(20)

        def body():
            tick_ident.append(threading.get_ident())
            exc = timer.fire()
            if exc is not None:
                self.tick_errors.append(exc)

        mp.os = OsProxy()
        had_open = "open" in mp.__dict__
        real_open = mp.__dict__.get("open", open)
        if pause == "mid-write":
            # pause the timer thread between two write() calls of the temp file instead (json writes in many chunks)
            class FileProxy:
                def __init__(self, fh):
                    self._fh = fh
                    self._n = 0

                def write(self, data):
                    r = self._fh.write(data)
                    self._n += 1
                    if self._n == 3 and tick_ident and threading.get_ident() == tick_ident[0] and not release.is_set():
                        self._fh.flush()
                        in_fsync.set()
                        release.wait(20)
                    return r

                def __getattr__(self, name):
                    return getattr(self._fh, name)

                def __enter__(self):
                    return self

                def __exit__(self, *a):
                    return self._fh.__exit__(*a)

            def proxy_open(*a, **k):
                fh = real_open(*a, **k)
                if tick_ident and threading.get_ident() == tick_ident[0] and len(a) > 1 and "w" in a[1]:
                    return FileProxy(fh)
                return fh

            mp.open = proxy_open
        th = threading.Thread(target=body, name="vf-tick", daemon=True)
        try:
            th.start()
            # either the save reaches fsync, or the tick finishes without saving (nothing to save)
            while th.is_alive() and not in_fsync.wait(0.005):
                pass
            overlapped = in_fsync.is_set()
            try:
                if line is not None:
                    self.eng.feed(line)
                # the timer thread goes on 50 ms after stop() was called: a stop() that waits for the save in flight
                # returns then, one that does not wait has long returned
                threading.Timer(0.05, release.set).start()
                self.stop()
            finally:
                release.set()
                th.join(20)
        finally:
            mp.os = real_os
            if pause == "mid-write":
                if had_open:
                    mp.open = real_open
                else:
                    del mp.open
            for t in FAKE_THREADING.live():
                t.cancel()
        return overlapped

    def close(self):
        if self.loop is not None:
            try:
                self.loop.close()
            except Exception:
                pass


def transient_empty(gw):
    bad = []
    for nid, s in gw.sensors.items():
        if len(getattr(s, "queue", ())):
            bad.append((nid, "queue"))
        if getattr(s, "new_state", {}):
            bad.append((nid, "desired"))
        if getattr(s, "reboot", False):
            bad.append((nid, "reboot"))
    return bad


def run_persist_history(cfg, steps, path):
    """steps: ["in", line] | ["set", ...] | ["tick"] | ["restart"] | ["stop"].

    Returns dict(idresp=[(known_before, handed_before, id, lifetime)], restarts=[(before, after)], crashed).
    """
    flavour, version = cfg["flavour"], cfg["version"]
    out = {"idresp": [], "restarts": [], "crashed": None, "ticks": 0, "lifetimes": 1, "tick_errors": [], "transient_after_load": [], "stop_errors": []}
    handed = set()
    wcb = cfg.get("callback", True)
    pg = PGateway(flavour, version, path, with_callback=wcb)
    pg.start()
    try:
        for idx, st in enumerate(steps):
            k = st[0]
            if k == "cbraise":
                # from here on the application's event callback raises (or stops raising)
                pg.eng.cb_raise = bool(st[1])
                continue
            if k == "present-last-id":
                # the node that was given the most recent id presents itself (nothing to do if none was handed out)
                if not out["idresp"] or not isinstance(out["idresp"][-1][2], int):
                    continue
                st = ["in", f"{out['idresp'][-1][2]};255;0;0;17;{version}"]
                k = "in"
                out["presentations_of_handed_out_ids"] = out.get("presentations_of_handed_out_ids", 0) + 1
            if k == "in":
                known = set(pg.gw.sensors)
                n0 = len(pg.eng.sent)
                try:
                    pg.eng.feed(st[1])
                except PumpDied:
                    out["crashed"] = (idx, pg.eng.pump_exc)
                    break
                for (_s, _o, line) in pg.eng.sent[n0:]:
                    f = parse_canon(line)
                    if f and f[2:5] == [3, 0, 4]:
                        try:
                            nid = int(f[5])
                        except ValueError:
                            nid = f[5]
                        out["idresp"].append((sorted(known), sorted(handed), nid, out["lifetimes"], idx))
                        handed.add(nid)
            elif k == "set":
                pg.eng.call("set", *st[1:5])
            elif k == "tick":
                if pg.tick():
                    out["ticks"] += 1
            elif k == "tick-unwritable":
                # a periodic save while the directory of the file is away for a moment: nothing can be written
                d = os.path.dirname(path)
                os.rename(d, d + ".away")
                try:
                    if pg.tick():
                        out["ticks"] += 1
                        out["unwritable_ticks"] = out.get("unwritable_ticks", 0) + 1
                finally:
                    os.rename(d + ".away", d)
            elif k in ("restart", "stop", "stop-during-tick", "restart-during-tick"):
                before = projection(pg.gw.sensors)
                late = st[1] if len(st) > 1 else None
                n0 = len(pg.eng.sent)
                known = set(pg.gw.sensors)
                try:
                    if k in ("stop-during-tick", "restart-during-tick"):
                        if pg.stop_during_tick(late, st[2] if len(st) > 2 else "fsync"):
                            out["stops_during_a_tick"] = out.get("stops_during_a_tick", 0) + 1
                    elif pg.stop(late):
                        out["late_lines_delivered"] = out.get("late_lines_delivered", 0) + 1
                    # what the gateway held when it stopped
                    before = projection(pg.gw.sensors)
                    for (_s, _o, line) in pg.eng.sent[n0:]:
                        f = parse_canon(line)
                        if f and f[2:5] == [3, 0, 4]:
                            try:
                                nid = int(f[5])
                            except ValueError:
                                nid = f[5]
                            out["idresp"].append((sorted(known), sorted(handed), nid, out["lifetimes"], idx))
                            handed.add(nid)
                except Exception as exc:     # judged by the caller: a stop() that raises has not saved
                    out["stop_errors"].append((idx, exc))
                    for t in FAKE_THREADING.live():
                        t.cancel()
                out["tick_errors"] += [repr(e) for e in pg.tick_errors]
                pg.close()
                pg = PGateway(flavour, version, path, with_callback=wcb)
                pg.start()
                after = projection(pg.gw.sensors)
                out["restarts"].append((before, after, idx))
                out["transient_after_load"] += transient_empty(pg.gw)
                out["lifetimes"] += 1
                if k in ("stop", "stop-during-tick"):
                    break
        out["final"] = projection(pg.gw.sensors)
    finally:
        try:
            pg.stop()
        except Exception:
            pass
        pg.close()
    return out
