"""Deterministic simulation of the threaded gateways with virtual time.

All library threads are real OS threads, but exactly one holds the baton; it moves only at blocking
points (sleep, Event.wait, join, contended Lock.acquire, fake-device reads, thread start/exit). The
next runnable thread is chosen by a seeded PRNG; virtual time advances only when nothing is
runnable, to the earliest deadline. Runs are replayable from (seed, script).
"""
import random
import threading as _th
import time as _time
import types

from . import core

core.use_repo()

import serial  # noqa: E402
import serial.threaded  # noqa: E402
import mysensors.gateway_serial as mgs  # noqa: E402
import mysensors.gateway_tcp as mgt  # noqa: E402
import mysensors.task as mtask  # noqa: E402
import mysensors.transport as mtr  # noqa: E402
import socket as _socket  # noqa: E402


class SimKilled(BaseException):
    """Raised inside simulated threads when the simulation is torn down."""


class Sim:
    def __init__(self, seed=0):
        self.rng = random.Random(seed)
        self.now = 0.0
        self.cv = _th.Condition()
        self.threads = {}
        self.current = None
        self.log = []
        self.killed = False
        self.thread_errors = []
        self.steps = 0

    def _me(self):
        return _th.get_ident()

    def register_current(self, name):
        with self.cv:
            self.threads[self._me()] = {"name": name, "state": "run", "until": None, "pred": None, "why": None}
            self.current = self._me()

    def _pick(self):
        """cv held: choose the next thread to run, advancing virtual time if nothing is runnable."""
        while True:
            runnable = [i for i, t in self.threads.items() if t["state"] == "run"]
            for i, t in self.threads.items():
                if t["state"] == "wait" and t["pred"] is not None:
                    try:
                        ok = t["pred"]()
                    except Exception:
                        ok = True
                    if ok:
                        t["state"] = "run"
                        t["why"] = "pred"
                        runnable.append(i)
            if runnable:
                runnable.sort(key=lambda i: self.threads[i]["name"])
                self.current = self.rng.choice(runnable)
                self.steps += 1
                self.cv.notify_all()
                return
            timed = [(t["until"], t["name"], i) for i, t in self.threads.items() if t["state"] == "wait" and t["until"] is not None]
            if not timed:
                self.current = None
                self.cv.notify_all()
                return
            u = min(timed)[0]
            self.now = max(self.now, u)
            for t in self.threads.values():
                if t["state"] == "wait" and t["until"] is not None and t["until"] <= self.now:
                    t["state"] = "run"
                    t["why"] = "time"

    def _wait_turn(self, me):
        while self.current != me:
            if self.killed:
                raise SimKilled()
            self.cv.wait(1.0)
        if self.killed:
            raise SimKilled()

    def block(self, until=None, pred=None):
        """Current thread blocks until virtual time `until` or pred() is true. Returns 'time' or 'pred'."""
        me = self._me()
        with self.cv:
            if self.killed:
                raise SimKilled()
            t = self.threads.get(me)
            if t is None:
                raise RuntimeError("thread not part of the simulation")
            if pred is not None and pred():
                # still a scheduling point: let others run first sometimes
                t["state"] = "run"
                self._pick()
                self._wait_turn(me)
                return "pred"
            t["state"] = "wait"
            t["until"] = until
            t["pred"] = pred
            t["why"] = None
            self._pick()
            self._wait_turn(me)
            t["until"] = None
            t["pred"] = None
            return t["why"]

    def spawn(self, name, fn):
        started = _th.Event()

        def body():
            me = _th.get_ident()
            try:
                with self.cv:
                    self.threads[me] = {"name": name, "state": "run", "until": None, "pred": None, "why": None}
                    started.set()
                    self._wait_turn(me)
                fn()
            except SimKilled:
                pass
            finally:
                with self.cv:
                    if me in self.threads:
                        self.threads[me]["state"] = "done"
                    if not self.killed and self.current == me:
                        self._pick()

        th = _th.Thread(target=body, name=f"sim-{name}", daemon=True)
        th.start()
        started.wait()
        return th

    def ev(self, *a):
        self.log.append((round(self.now, 4),) + a)

    def shutdown(self):
        with self.cv:
            self.killed = True
            self.cv.notify_all()

    def alive_names(self):
        return sorted(t["name"] for t in self.threads.values() if t["state"] != "done")


SIM = None


def sim():
    return SIM


class VTime:
    def time(self):
        return SIM.now

    def monotonic(self):
        return SIM.now

    def sleep(self, dt):
        SIM.ev("SLEEP", _th.current_thread().name.replace("sim-", ""), round(dt, 4))
        SIM.block(until=SIM.now + max(0.0, dt))

    def __getattr__(self, name):
        return getattr(_time, name)


class VEvent:
    def __init__(self):
        self.f = False

    def set(self):
        self.f = True

    def clear(self):
        self.f = False

    def is_set(self):
        return self.f

    def wait(self, timeout=None):
        SIM.block(until=None if timeout is None else SIM.now + timeout, pred=lambda: self.f)
        return self.f


class VLock:
    def __init__(self):
        self._locked = False

    def acquire(self, blocking=True, timeout=-1):
        if not blocking:
            if self._locked:
                return False
            self._locked = True
            return True
        while True:
            SIM.block(pred=lambda: not self._locked)
            if not self._locked:     # only one simulated thread runs at a time: check-and-set is atomic here
                self._locked = True
                return True

    def release(self):
        self._locked = False

    def locked(self):
        return self._locked

    def __enter__(self):
        self.acquire()
        return self

    def __exit__(self, *a):
        self.release()
        return False


class VThread:
    _n = 0

    def __init__(self, group=None, target=None, name=None, args=(), kwargs=None, daemon=None):
        VThread._n += 1
        self._target = target
        self._args = args
        self._kw = kwargs or {}
        self.name = name or f"{getattr(target, '__name__', 'T')}-{VThread._n}"
        self.done = False
        self.started = False
        self.daemon = daemon

    def run(self):
        if self._target:
            self._target(*self._args, **self._kw)

    def start(self):
        self.started = True

        def body():
            try:
                self.run()
            except SimKilled:
                raise
            except BaseException as exc:
                SIM.thread_errors.append((self.name, exc))
                SIM.ev("THREAD-EXC", self.name, type(exc).__name__, str(exc)[:120])
            finally:
                self.done = True

        SIM.spawn(self.name, body)
        # starting a thread is a scheduling point: the new thread may run (far) ahead of its creator
        SIM.block(pred=lambda: True)

    def join(self, timeout=None):
        SIM.block(until=None if timeout is None else SIM.now + timeout, pred=lambda: self.done)

    def is_alive(self):
        return self.started and not self.done


class VTimer(VThread):
    def __init__(self, interval, function, args=None, kwargs=None):
        super().__init__(name=f"timer-{getattr(function, '__name__', 'f')}")
        self.interval = interval
        self.function = function
        self.a = args or ()
        self.k = kwargs or {}
        self.cancelled = False

    def cancel(self):
        self.cancelled = True

    def run(self):
        SIM.block(until=SIM.now + self.interval, pred=lambda: self.cancelled)
        if not self.cancelled:
            self.function(*self.a, **self.k)


class VThreading:
    Thread = VThread
    Event = VEvent
    Lock = VLock
    Timer = VTimer
    uses = 0

    def __getattr__(self, name):
        return getattr(_th, name)


_saved = None


def install():
    """Substitute time/threading in the library modules (through the names they look up at call time)."""
    global _saved
    if _saved is not None:
        return
    RT = serial.threaded.ReaderThread
    _saved = {"mtask.time": mtask.time, "mtask.threading": mtask.threading, "mtr.threading": mtr.threading,
              "mgs.time": mgs.time, "mgt.time": mgt.time, "st.threading": serial.threaded.threading,
              "RT.start": RT.start, "RT.join": RT.join, "mgs.serial": mgs.serial, "mgt.socket": mgt.socket, "mgt.select": mgt.select}
    vt, vth = VTime(), VThreading()
    mtask.time = vt
    mtask.threading = vth
    mtr.threading = vth
    mgs.time = vt
    mgt.time = vt
    serial.threaded.threading = vth

    def rt_start(self):
        self._sim_done = False
        name = "reader"

        def body():
            try:
                self.run()
            except SimKilled:
                raise
            except BaseException as exc:
                SIM.thread_errors.append((name, exc))
                SIM.ev("THREAD-EXC", name, type(exc).__name__, str(exc)[:120])
            finally:
                self._sim_done = True

        SIM.spawn(name, body)
        SIM.block(pred=lambda: True)

    def rt_join(self, timeout=None):
        SIM.block(until=None if timeout is None else SIM.now + timeout, pred=lambda: getattr(self, "_sim_done", True))

    RT.start = rt_start
    RT.join = rt_join


def uninstall():
    global _saved
    if _saved is None:
        return
    RT = serial.threaded.ReaderThread
    mtask.time = _saved["mtask.time"]
    mtask.threading = _saved["mtask.threading"]
    mtr.threading = _saved["mtr.threading"]
    mgs.time = _saved["mgs.time"]
    mgt.time = _saved["mgt.time"]
    serial.threaded.threading = _saved["st.threading"]
    RT.start = _saved["RT.start"]
    RT.join = _saved["RT.join"]
    mgs.serial = _saved["mgs.serial"]
    mgt.socket = _saved["mgt.socket"]
    mgt.select = _saved["mgt.select"]
    _saved = None


def new_sim(seed):
    global SIM
    SIM = Sim(seed)
    SIM.register_current("main")
    return SIM


# ---------------------------------------------------------------------------
# fake devices (mimic the failure behaviour of the real ones and nothing more)
class FakeSerial:
    """pyserial's posix port as the library sees it, including what a port looks like while another thread is closing it:
    serialposix.close() releases the descriptors first and clears is_open last, and write / read / in_waiting /
    cancel_read use the descriptors after an is_open test - a thread arriving in between gets TypeError (descriptor is
    None) or OSError EBADF, not SerialException (observed on the real pty under vf/realdev.py)."""

    def __init__(self, cid, timeout):
        self.cid = cid
        self.is_open = True
        self.fd_gone = False
        self.buf = bytearray()
        self.err = None
        self.cancel = False
        self.timeout = timeout
        self.written = []
        self.write_err = None

    def _half_closed(self):
        if self.fd_gone:
            raise TypeError("'NoneType' object cannot be interpreted as an integer")

    @property
    def in_waiting(self):
        self._half_closed()
        return len(self.buf)

    def read(self, n=1):
        if not self.is_open:
            raise serial.PortNotOpenError()
        self._half_closed()
        SIM.block(until=None if self.timeout is None else SIM.now + self.timeout,
                  pred=lambda: bool(self.buf) or self.err is not None or self.cancel or not self.is_open or self.fd_gone)
        if self.err is not None:
            e, self.err = self.err, None
            raise e
        self.cancel = False
        if not self.is_open or self.fd_gone:
            return b""
        d = bytes(self.buf[:n])
        del self.buf[:n]
        return d

    def cancel_read(self):
        if self.is_open:
            if self.fd_gone:
                raise OSError(9, "Bad file descriptor")
            self.cancel = True

    def write(self, d):
        if not self.is_open:
            raise serial.PortNotOpenError()
        SIM.block(pred=lambda: True)        # another thread may close the port between the test and the write
        self._half_closed()
        if self.write_err is not None:
            e, self.write_err = self.write_err, None
            raise e
        self.written.append(d)
        SIM.ev("WRITE", self.cid, d)
        return len(d)

    def close(self):
        if self.is_open and not self.fd_gone:
            self.fd_gone = True
            SIM.ev("DEV-CLOSE", self.cid)
            SIM.block(pred=lambda: True)    # descriptors released, is_open still set
            self.is_open = False


class FakeSock:
    def __init__(self, cid):
        self.cid = cid
        self.rbuf = bytearray()
        self.eof = False
        self.rerr = None
        self.closed = False
        self.writes_after_eof = 0
        self.written = []
        self.answer = None      # latency of I_VERSION answers, None = silent
        self.pending = []
        self.write_err = None

    def setblocking(self, f):
        pass

    def fileno(self):
        return 1000 + self.cid

    def recv(self, n):
        if self.closed:
            raise OSError(9, "Bad file descriptor")
        if self.rerr is not None:
            e, self.rerr = self.rerr, None
            raise e
        if self.rbuf:
            d = bytes(self.rbuf[:n])
            del self.rbuf[:n]
            return d
        if self.eof:
            return b""
        raise BlockingIOError(11, "would block")

    def sendall(self, d):
        if self.closed:
            raise OSError(9, "Bad file descriptor")
        if self.write_err is not None:
            e, self.write_err = self.write_err, None
            raise e
        if self.eof:
            self.writes_after_eof += 1
            if self.writes_after_eof > 1:
                raise BrokenPipeError(32, "Broken pipe")
            return
        self.written.append(d)
        SIM.ev("WRITE", self.cid, d)
        if self.answer is not None and b";255;3;0;2;" in d:
            self.pending.append((SIM.now + self.answer, b"0;255;3;0;2;2.3.2\n"))

    def close(self):
        if not self.closed:
            self.closed = True
            SIM.ev("DEV-CLOSE", self.cid)

    # the rest of the socket API a transport may reasonably use, with the real failure behaviour
    def shutdown(self, how):
        if self.closed:
            raise OSError(9, "Bad file descriptor")
        if self.writes_after_eof > 1:
            raise OSError(107, "Transport endpoint is not connected")
        self.eof = True

    def send(self, d):
        self.sendall(d)
        return len(d)

    def settimeout(self, t):
        if self.closed:
            raise OSError(9, "Bad file descriptor")

    def gettimeout(self):
        return 0.0

    def setsockopt(self, *a):
        if self.closed:
            raise OSError(9, "Bad file descriptor")

    def getsockopt(self, *a):
        if self.closed:
            raise OSError(9, "Bad file descriptor")
        return 0

    def getpeername(self):
        if self.closed:
            raise OSError(9, "Bad file descriptor")
        return ("10.0.0.1", 5003)

    def getsockname(self):
        if self.closed:
            raise OSError(9, "Bad file descriptor")
        return ("10.0.0.2", 40000 + self.cid)

    def __enter__(self):
        return self

    def __exit__(self, *a):
        self.close()

    def poll(self):
        for item in list(self.pending):
            if item[0] <= SIM.now + 1e-9:
                self.rbuf += item[1]
                self.pending.remove(item)
                SIM.ev("ANSWER", self.cid)


class FakeSelect:
    def select(self, r, w, x, timeout=None):
        sock = r[0]
        if sock.closed:
            # a closed socket has fileno() == -1: the real select.select raises ValueError, not OSError
            raise ValueError("file descriptor cannot be a negative integer (-1)")
        sock.poll()
        rd = [sock] if (sock.rbuf or sock.eof or sock.rerr is not None) else []
        return rd, [sock], []
