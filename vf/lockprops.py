"""Shared runner for the properties decided by the lock-step engine (C01 C04 C05 C07 C08 C10)."""
import os
import time

from . import core, gen
from .core import Result
from .lockstep import HarnessError, run_history

VERSIONS = ["1.4", "1.5", "2.0", "2.1", "2.2"]
# what a user may configure for the same protocol class (the library picks the class with "not version < class")
SPELLINGS = {"1.4": ["1.4.0", "1.4.2"], "1.5": ["1.5.0", "1.5.4", "1.6"], "2.0": ["2.0.0", "2.0.1"],
             "2.1": ["2.1.0", "2.1.1"], "2.2": ["2.2.0", "2.3", "2.3.2"]}


def make_jobs(seed, njobs, nhist, length, versions, flavours, profile, mqtt_frac=0.0, tz=None):
    jobs = []
    for i in range(njobs):
        jobs.append({"seed": seed, "i": i, "nhist": nhist, "length": length, "versions": versions,
                     "flavours": flavours, "profile": profile, "mqtt_frac": mqtt_frac,
                     "tz": (tz[i % len(tz)] if tz else None)})
    return jobs


def fires(cfg, steps, prop, sig):
    try:
        o = run_history(cfg, steps, props=(prop,))
    except HarnessError:
        return False
    return any(v[0] == prop and v[1] == sig for v in o.violations)


def shrink(cfg, steps, prop, sig, budget=6.0):
    """Shortest firing prefix (bisection), then greedy deletion while the same signature still fires."""
    t0 = time.time()
    cur = list(steps)
    lo, hi = 1, len(cur)
    while lo < hi and time.time() - t0 < budget:
        mid = (lo + hi) // 2
        if fires(cfg, cur[:mid], prop, sig):
            hi = mid
        else:
            lo = mid + 1
    if fires(cfg, cur[:hi], prop, sig):
        cur = cur[:hi]
    i = len(cur) - 2
    while i >= 0 and time.time() - t0 < budget:
        cand = cur[:i] + cur[i + 1:]
        if fires(cfg, cand, prop, sig):
            cur = cand
        i -= 1
    return cur


def state_class(mdl):
    return (bool(mdl.nodes), bool(mdl.sleeping), bool(mdl.session), any(mdl.held.values()),
            any(any(c.values()) for c in mdl.desired.values()))


def run_lock_job(prop, job, normal_forms, confirm_crash=False):
    res = Result()
    rng = core.rng_for(prop, job["seed"], job["i"])
    if job.get("tz"):
        os.environ["TZ"] = job["tz"]
        time.tzset()
        res.add_set("tz", job["tz"])
    confirmed = {}
    job_sigs = set()
    for hno in range(job["nhist"]):
        version = job["versions"][(hno + job["i"]) % len(job["versions"])]
        flavour = job["flavours"][(hno // len(job["versions"])) % len(job["flavours"])]
        mqtt = rng.random() < job.get("mqtt_frac", 0)
        cfg = {"version": version, "flavour": flavour, "mqtt": mqtt}
        if rng.random() < 0.2:
            cfg["gw_version"] = rng.choice(SPELLINGS[version])
            res.add_set("gateway_version_spellings", cfg["gw_version"])
        steps = gen.history(rng, version, job["length"], job["profile"])
        out = run_history(cfg, steps, props=(prop,))
        res.evals += len(steps)
        res.count("histories")
        res.count("steps", len(steps))
        for k, v in out.stats.items():
            res.count(k, v)
        res.add_set("cfg", f"{version}/{flavour}/{'mqtt' if mqtt else 'plain'}")
        for k in out.kinds:
            res.add_set("kinds", k)
        normal_forms(res, cfg, steps, out)
        mine = [v for v in out.violations if v[0] == prop]
        seen = set()
        for (_p, sig, what, st) in mine:
            if sig in seen:
                continue
            seen.add(sig)
            if sig in job_sigs:
                if confirmed.get(sig, True):
                    res.violation(sig, what, None)   # counted; the first occurrence carries the shrunk case
                continue
            job_sigs.add(sig)
            small = shrink(cfg, steps, prop, sig, budget=3.0 if len(job_sigs) <= 4 else 0.3)
            case = {"cfg": cfg, "steps": small}
            if confirm_crash and sig.startswith("pump-exception") and flavour == "sync":
                if sig not in confirmed:
                    from .drive import confirm_real_pump

                    plain = [s for s in small if s[0] in ("in", "set", "fw")]
                    confirmed[sig] = confirm_real_pump(version, plain, mqtt=mqtt)
                    res.count("crashes_replayed_on_real_pump")
                if not confirmed[sig]:
                    res.count("crash_not_confirmed_on_real_pump")
                    res.notes.append(f"{sig}: raised in the emulated pump but the real poll thread survived")
                    continue
            res.violation(sig, what, case)
        if hno < 2 and job["i"] == 0:
            res.sample({"cfg": cfg, "steps": steps[:14], "model_kinds": out.kinds[:14]})
    return res


def replay_lock(prop, case):
    res = Result()
    out = run_history(case["cfg"], case["steps"], props=(prop,))
    res.evals = len(case["steps"])
    for (p, sig, what, st) in out.violations:
        if p == prop:
            res.violation(sig, what, case)
    return res
