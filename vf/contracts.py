"""Runtime contracts on the real functions (icontract when available, plain wrappers otherwise).

Conditions *record and return True*: a contract never changes the behaviour it observes. They are installed by
vf/suite_plugin.py so that the repository's own test-suite becomes one more workload for the monitors.
"""
import functools
import json
import os

RECORD = {"evaluations": {}, "violations": []}


def _count(name):
    RECORD["evaluations"][name] = RECORD["evaluations"].get(name, 0) + 1


def _violate(sig, what):
    if len(RECORD["violations"]) < 50 and not any(v["sig"] == sig for v in RECORD["violations"]):
        RECORD["violations"].append({"sig": sig, "what": what[:600]})


def carriable(p):
    return isinstance(p, str) and ";" not in p and "\n" not in p and "\r" not in p and p == p.rstrip()


# ---- conditions (named functions; argument names match the decorated functions) --------------------------
def encode_is_canonical(self, delimiter, result):
    _count("Message.encode")
    try:
        if result is None:
            return True
        ints = [int(self.node_id), int(self.child_id), int(self.type), int(self.ack), int(self.sub_type)]
        want = delimiter.join([str(i) for i in ints] + [str(self.payload)]) + "\n"
        if result != want:
            _violate("contract:encode-not-canonical", f"encode() returned {result!r}, canonical form is {want!r}")
    except Exception as exc:      # fields that int() refuses must have produced None
        _violate("contract:encode-returned-text-for-bad-fields", f"encode() returned {result!r} although a field is not an integer ({exc!r})")
    return True


def copy_keeps_other_fields(self, kwargs, result):
    _count("Message.copy")
    try:
        fields = ("node_id", "child_id", "type", "ack", "sub_type", "payload")
        ints_ok = all(isinstance(getattr(self, f), int) for f in fields[:5])
        if not ints_ok or not carriable(self.payload):
            return True
        for f in fields:
            want = kwargs[f] if f in kwargs else getattr(self, f)
            got = getattr(result, f)
            if got != want:
                _violate(f"contract:copy-differs:{'replaced' if f in kwargs else 'kept'}:{f}",
                         f"copy({kwargs!r}) of {[getattr(self, x) for x in fields]!r} has {f}={got!r}, expected {want!r}")
        if result is self:
            _violate("contract:copy-returns-self", "copy() returned the same object")
    except Exception as exc:
        _violate("contract:copy-check-failed", repr(exc))
    return True


def _gw_state(gw):
    try:
        nodes = {}
        for nid, s in gw.sensors.items():
            nodes[nid] = (s.type, s.protocol_version, s.sketch_name, s.sketch_version, s.battery_level, s.heartbeat,
                          {c: (ch.type, ch.description, dict(ch.values)) for c, ch in s.children.items()},
                          list(getattr(s, "queue", ())), {c: dict(ch.values) for c, ch in getattr(s, "new_state", {}).items()},
                          bool(getattr(s, "reboot", False)))
        return repr(nodes)
    except Exception:
        return None


def rejected_line_has_no_effect(self, data, result, OLD):
    _count("Gateway.logic")
    try:
        import voluptuous as vol
        from mysensors.message import Message

        try:
            Message(data).validate(self.protocol_version)
            return True
        except (ValueError, vol.Invalid):
            pass
        _count("Gateway.logic:rejected")
        if result is not None:
            _violate("contract:rejected-line-effect:reply", f"logic({data!r}) returned {result!r} for a line the library rejects")
        if OLD.state is not None and OLD.state != _gw_state(self):
            _violate("contract:rejected-line-effect:state", f"logic({data!r}) changed the network state although the line is rejected")
    except Exception as exc:
        _violate("contract:logic-check-failed", repr(exc))
    return True


def install():
    """Decorate the real functions. Returns 'icontract' or 'plain'."""
    from mysensors import Gateway
    from mysensors.message import Message

    try:
        import icontract
    except Exception:
        icontract = None
    orig_encode, orig_copy, orig_logic = Message.encode, Message.copy, Gateway.logic
    if icontract is not None:
        class ContractBroken(Exception):
            pass

        Message.encode = icontract.ensure(encode_is_canonical, error=ContractBroken)(orig_encode)
        Gateway.logic = icontract.snapshot(_snap_state, name="state")(
            icontract.ensure(rejected_line_has_no_effect, error=ContractBroken)(orig_logic))

        # copy(**kwargs): icontract cannot name **kwargs in a condition, so copy gets the plain wrapper
        @functools.wraps(orig_copy)
        def copy(self, **kwargs):
            result = orig_copy(self, **kwargs)
            copy_keeps_other_fields(self, kwargs, result)
            return result

        Message.copy = copy
        return "icontract"

    @functools.wraps(orig_encode)
    def encode(self, delimiter=";"):
        result = orig_encode(self, delimiter)
        encode_is_canonical(self, delimiter, result)
        return result

    @functools.wraps(orig_copy)
    def copy(self, **kwargs):
        result = orig_copy(self, **kwargs)
        copy_keeps_other_fields(self, kwargs, result)
        return result

    @functools.wraps(orig_logic)
    def logic(self, data):
        old = type("OLD", (), {"state": _gw_state(self)})
        result = orig_logic(self, data)
        rejected_line_has_no_effect(self, data, result, old)
        return result

    Message.encode, Message.copy, Gateway.logic = encode, copy, logic
    return "plain"


def _snap_state(self):
    return _gw_state(self)


def dump(path, mode):
    with open(path, "w", encoding="utf-8") as fh:
        json.dump({"mode": mode, **RECORD}, fh)
