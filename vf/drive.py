"""Drivers: build real gateways over recording transports and drive histories.

Everything is observed at boundaries we own: the transport object handed to the
gateway, the event callback, MQTT pub/sub callbacks, and instance-level
wrappers around public methods (gateway.logic, tasks.add_job, transport.send).
"""
import asyncio
import os
import threading
import time as _time

from . import core

core.use_repo()

import mysensors  # noqa: E402
import voluptuous as vol  # noqa: E402
from mysensors import BaseAsyncGateway, BaseSyncGateway  # noqa: E402
from mysensors.message import Message  # noqa: E402

VERSIONS = ["1.4", "1.5", "2.0", "2.1", "2.2"]


class RecT:
    """Recording transport (the object handed to Base*Gateway)."""

    def __init__(self):
        self.log = []
        self.can_log = False
        self.protocol = None
        self.connect_task = None
        self.connected = 0
        self.disconnected = 0

    def send(self, message):
        if message:
            self.log.append(message)

    def connect(self):
        self.connected += 1

    def disconnect(self):
        self.disconnected += 1


class AsyncRecT(RecT):
    async def connect(self):
        self.connected += 1


def _foreign(obj):
    return {"__not_a_library_object__": type(obj).__name__, "repr": repr(obj)[:200], "ch": {}, "vals": {}, "desc": None, "type": None,
            "id": None, "pv": None, "sn": None, "sv": None, "bat": None, "hb": None}


def projection(sensors):
    """User-visible node/child/value tree. Objects of a foreign shape (a dict where a ChildSensor belongs, ...) are
    represented as such, so that comparisons report them instead of the harness failing."""
    out = {}
    for nid, s in sensors.items():
        try:
            out[nid] = {
                "id": s.sensor_id,
                "type": s.type,
                "pv": s.protocol_version,
                "sn": s.sketch_name,
                "sv": s.sketch_version,
                "bat": s.battery_level,
                "hb": s.heartbeat,
                "ch": {},
            }
            children = s.children.items()
        except AttributeError:
            out[nid] = _foreign(s)
            continue
        for cid, ch in children:
            try:
                out[nid]["ch"][cid] = {"id": ch.id, "type": ch.type, "desc": ch.description, "vals": dict(ch.values)}
            except (AttributeError, TypeError, ValueError):
                out[nid]["ch"][cid] = _foreign(ch)
    return out


def strict(obj):
    """Type-tagged deep copy: 1 != '1' != True, IntEnum != int."""
    if isinstance(obj, dict):
        return {"__d": sorted(((strict(k), strict(v)) for k, v in obj.items()), key=repr)}
    if isinstance(obj, (list, tuple)):
        return [type(obj).__name__] + [strict(x) for x in obj]
    return (type(obj).__name__, obj if isinstance(obj, (int, float, str, bool, type(None))) else repr(obj))


def transient(gw):
    """Smart-sleep / reboot / OTA state (internal, read defensively)."""
    tr = {}
    for nid, s in gw.sensors.items():
        q = list(getattr(s, "queue", ()))
        ns = {c: dict(getattr(ch, "values", {})) for c, ch in getattr(s, "new_state", {}).items()}
        tr[nid] = (q, ns, bool(getattr(s, "reboot", False)))
    ota = getattr(gw.tasks, "ota", None)
    o = None
    if ota is not None:
        o = (
            dict(getattr(ota, "requested", {})),
            dict(getattr(ota, "unstarted", {})),
            dict(getattr(ota, "started", {})),
            sorted(getattr(ota, "firmware", {}).keys(), key=repr),      # foreign key types must not break the monitor
        )
    return tr, o


def snapshot(gw):
    tr, o = transient(gw)
    return (projection(gw.sensors), tr, o, getattr(gw, "can_log", None))


def lib_verdict(line, version):
    """The library's own accept/reject verdict for a raw line."""
    try:
        msg = Message(line)
    except ValueError:
        return None, "malformed"
    except Exception:      # the decoder itself failed: for the monitors this is not a frame (the pump is judged separately)
        return None, "malformed"
    try:
        msg.validate(version)
    except vol.Invalid:
        return msg, "invalid"
    except Exception:      # validation failed internally: no verdict (the same failure in the pump is judged there)
        return msg, "invalid"
    return msg, "ok"


def line_to_mqtt(line, prefix):
    """Map a raw serial-style line onto (topic, payload, qos) for the MQTT path."""
    parts = line.rstrip("\n").split(";", 5)
    if len(parts) >= 6:
        topic = prefix + "/" + "/".join(parts[:5])
        qos = 1 if parts[3].strip() == "1" else 0
        return topic, parts[5], qos
    return prefix + "/" + "/".join(parts), "", 0


class PumpDied(Exception):
    pass


class Engine:
    """Drive one real gateway through a history and record an event log."""

    def __init__(self, flavour="sync", version="2.2", mqtt=False, persistence_file=None,
                 in_prefix="in", out_prefix="out", retain=True, with_callback=True):
        self.flavour = flavour
        self.version = version
        self.mqtt = mqtt
        self.in_prefix = in_prefix
        self.out_prefix = out_prefix
        self.step = -1
        self.cur_origin = None
        self.sent = []      # (step, origin, line)
        self.cbs = []       # (step, fields, projection inside callback)
        self.pubs = []      # (step, topic, payload, qos, retain)
        self.subs = []      # (step, topic)
        self.logic_in = []  # (step, data)
        self.cb_raise = False
        self.cb_set_armed = False
        self.cb_set_calls = []
        self.cb_fw_armed = None
        self.cb_fw_calls = []
        self.cb_hook = None       # called inside the event callback (e.g. another gateway of the process doing its work)
        self.pub_raise = False
        self.sub_raise = False
        self.pump_exc = None
        self.origin = {}
        self._keep = []
        self.sent_kind = []   # parallel to sent: "direct" (reply of a line's logic job) | "spawned"
        self.job_is_logic = True
        self.depth = 0
        self.pre_logic = None    # hook(origin_step, data) -> token
        self.post_logic = None   # hook(token, origin_step, data, reply, exc)
        self.hook_error = None
        self.attrib_ok = True
        kw = {"protocol_version": version}
        if with_callback:
            kw["event_callback"] = self._cb
        if persistence_file:
            kw["persistence"] = True
            kw["persistence_file"] = persistence_file
        if mqtt:
            from mysensors.gateway_mqtt import AsyncMQTTGateway, MQTTGateway

            cls = MQTTGateway if flavour == "sync" else AsyncMQTTGateway
            self.gw = cls(self._pub, self._sub, in_prefix=in_prefix, out_prefix=out_prefix,
                          retain=retain, **kw)
            self.t = self.gw.tasks.transport
        else:
            self.t = RecT() if flavour == "sync" else AsyncRecT()
            cls = BaseSyncGateway if flavour == "sync" else BaseAsyncGateway
            self.gw = cls(self.t, **kw)
        self._wrap()

    def _injected(self, who):
        """User callbacks can raise anything: with and without arguments, built-in and custom classes."""
        class Custom(Exception):
            pass

        self._inj_n = getattr(self, "_inj_n", 0) + 1
        kinds = [lambda: RuntimeError(f"{who} callback raises (injected)"), lambda: ConnectionError(), lambda: KeyError(),
                 lambda: OSError(5, "injected"), lambda: Custom(), lambda: ValueError("x", "y"), lambda: TimeoutError(),
                 lambda: UnicodeDecodeError("utf-8", b"\xff", 0, 1, "injected")]
        return kinds[self._inj_n % len(kinds)]()

    # -- boundary recorders -------------------------------------------------
    def _cb(self, msg):
        self.cbs.append(
            (self.step,
             (msg.node_id, msg.child_id, msg.type, msg.ack, msg.sub_type, msg.payload),
             projection(self.gw.sensors))
        )
        if self.cb_hook is not None:
            self.cb_hook(msg)
        if self.cb_fw_armed is not None and msg.type == 0 and msg.child_id == 255:
            # one-shot: the controller schedules a firmware update for the node from inside the callback of the node's
            # own presentation
            ft, fv, img = self.cb_fw_armed
            self.cb_fw_armed = None
            err = None
            try:
                self.gw.tasks.ota.make_update(msg.node_id, ft, fv, img)
            except Exception as exc:
                err = exc
            self.cb_fw_calls.append((msg.node_id, ft, fv, img, err is not None))
        if self.cb_set_armed and msg.type == 1:
            # one-shot: the controller reacts to this report from inside the callback with a command for the same child
            # and value type (a set-point being enforced, a manual change being undone)
            self.cb_set_armed = False
            value = {"1": "0", "0": "1"}.get(msg.payload, msg.payload)
            err = None
            try:
                self.gw.set_child_value(msg.node_id, msg.child_id, msg.sub_type, value)
            except Exception as exc:      # judged like any refused controller call
                err = exc
            self.cb_set_calls.append((msg.node_id, msg.child_id, msg.sub_type, value, err is not None))
        if self.cb_raise:
            raise self._injected("callback")

    def _pub(self, topic, payload, qos, retain):
        self.pubs.append((self.step, topic, payload, qos, retain))
        if self.pub_raise:
            raise self._injected("publish")

    def _sub(self, topic, callback, qos):
        self.subs.append((self.step, topic))
        if self.sub_raise:
            raise self._injected("subscribe")

    def _hook(self, fn, *args):
        """Monitor hooks must never change what they observe: their errors are kept aside."""
        if fn is None or self.hook_error is not None:
            return None
        try:
            return fn(*args)
        except BaseException as exc:  # harness bug, reported as such (never as a violation)
            self.hook_error = exc
            return None

    def _wrap(self):
        eng = self
        gw = self.gw
        tasks = gw.tasks
        t = tasks.transport
        orig_send = t.send

        def send(message):
            if message:
                o = eng.cur_origin if eng.cur_origin is not None else eng.step
                eng.sent.append((eng.step, o, message))
                eng.sent_kind.append("direct" if eng.job_is_logic else "spawned")
            return orig_send(message)

        t.send = send
        orig_logic = gw.logic

        def logic(data):
            o = eng.cur_origin if eng.cur_origin is not None else eng.step
            eng.logic_in.append((o, data))
            tok = eng._hook(eng.pre_logic, o, data)
            try:
                reply = orig_logic(data)
            except BaseException as exc:
                eng._hook(eng.post_logic, tok, o, data, None, exc)
                raise
            eng._hook(eng.post_logic, tok, o, data, reply, None)
            return reply

        gw.logic = logic
        orig_add = tasks.add_job

        if self.flavour == "sync":
            def add_job(func, *args):
                n0 = len(tasks.queue)
                orig_add(func, *args)
                try:
                    if len(tasks.queue) == n0 + 1:
                        job = tasks.queue[-1]
                        eng.origin[id(job)] = (
                            eng.cur_origin if eng.cur_origin is not None else eng.step
                        )
                        eng._keep.append(job)
                    else:
                        eng.attrib_ok = False
                except Exception:  # pragma: no cover - defensive
                    eng.attrib_ok = False

            tasks.add_job = add_job
        else:
            def add_job_async(func, *args):
                # the asyncio flavour runs jobs inline: the outermost job is the line's logic() call,
                # anything it adds while running is a spawned job
                eng.depth += 1
                prev = eng.job_is_logic
                eng.job_is_logic = eng.depth == 1
                try:
                    return orig_add(func, *args)
                finally:
                    eng.depth -= 1
                    eng.job_is_logic = prev if eng.depth else True

            tasks.add_job = add_job_async

    # -- the pump -----------------------------------------------------------
    def drain(self, max_jobs=None):
        """Emulates the body of the sync poll loop: reply = run_job(); send(reply)."""
        if self.flavour != "sync":
            return
        tasks = self.gw.tasks
        n = 0
        while tasks.queue and (max_jobs is None or n < max_jobs):
            job = tasks.queue[0]
            self.cur_origin = self.origin.get(id(job), self.step)
            try:
                self.job_is_logic = getattr(job[0], "__name__", "") == "logic"
            except Exception:
                self.job_is_logic = True
            try:
                reply = tasks.run_job()
                tasks.transport.send(reply)
            except Exception as exc:  # the poll thread would die here
                self.pump_exc = exc
                self.cur_origin = None
                raise PumpDied() from exc
            finally:
                self.cur_origin = None
            n += 1

    def _inbound(self, line):
        gw = self.gw
        if self.mqtt:
            topic, payload, qos = line_to_mqtt(line, self.in_prefix)
            gw.tasks.transport.recv(topic, payload, qos)
        else:
            gw.tasks.add_job(gw.logic, line)

    def feed(self, line, drain=True):
        """One inbound line. Raises PumpDied if message processing raised."""
        self.step += 1
        try:
            self._inbound(line)
        except PumpDied:
            raise
        except Exception as exc:
            self.pump_exc = exc
            raise PumpDied() from exc
        if drain:
            self.drain()

    def call(self, kind, *args, drain=True, **kw):
        """A controller call. Returns the exception it raised (or None)."""
        self.step += 1
        gw = self.gw
        err = None
        try:
            if kind == "set":
                gw.set_child_value(*args, **kw)
            elif kind == "fw":
                nids, ftype, fver, fbin = args
                gw.tasks.ota.make_update(nids, ftype, fver, fbin)
            elif kind == "fwpath":
                nids, ftype, fver, path = args
                if self.flavour == "sync":
                    gw.update_fw(nids, ftype, fver, fw_path=path)
                else:
                    run_coro(gw.update_fw(nids, ftype, fver, fw_path=path))
            else:
                raise AssertionError(kind)
        except PumpDied:
            raise
        except Exception as exc:  # the call did not return normally
            err = exc
        if drain:
            self.drain()
        return err

    def sent_in_step(self, step):
        return [l for (s, o, l) in self.sent if o == step]


def run_coro(coro):
    loop = asyncio.new_event_loop()
    try:
        return loop.run_until_complete(coro)
    finally:
        loop.close()


def confirm_real_pump(version, steps, mqtt=False, probe_node=200):
    """Re-run a history on the real threaded pump; True if the pump died.

    steps: list of ("in", line) / ("set", n, c, vt, val) / ("fw", nids, t, v, hexbytes).
    The pump is the real SyncTasks._poll_queue thread started by tasks.start().
    """
    import mysensors.task as mtask

    died = []
    old_hook = threading.excepthook

    def hook(args):
        died.append(args.exc_type.__name__)

    threading.excepthook = hook
    real_sleep = _time.sleep

    class FastTime:
        def __getattr__(self, name):
            return getattr(_time, name)

        @staticmethod
        def sleep(dt):
            real_sleep(min(dt, 0.0005))

    old_time = mtask.time
    mtask.time = FastTime()
    try:
        if mqtt:
            from mysensors.gateway_mqtt import MQTTGateway

            pubs = []
            gw = MQTTGateway(lambda *a: pubs.append(a), lambda *a: None, in_prefix="in",
                             out_prefix="out", protocol_version=version)
            t = gw.tasks.transport
            sent = pubs
        else:
            t = RecT()
            gw = BaseSyncGateway(t, protocol_version=version)
            sent = t.log
        gw.start()

        def quiesce():
            for _ in range(4000):
                if not gw.tasks.queue:
                    real_sleep(0.002)
                    if not gw.tasks.queue:
                        return
                if died:
                    return
                real_sleep(0.001)

        try:
            for st in steps:
                if st[0] == "in":
                    if mqtt:
                        topic, payload, qos = line_to_mqtt(st[1], "in")
                        try:
                            t.recv(topic, payload, qos)
                        except Exception:
                            return True   # raised straight into the MQTT client's receive callback
                    else:
                        gw.tasks.add_job(gw.logic, st[1])
                elif st[0] == "set":
                    try:
                        gw.set_child_value(*st[1:5], **(st[5] if len(st) > 5 else {}))
                    except Exception:
                        pass
                elif st[0] == "fw":
                    try:
                        fbin = bytes.fromhex(st[4]) if st[4] is not None else None
                        gw.tasks.ota.make_update(st[1], st[2], st[3], fbin)
                    except Exception:
                        pass
                quiesce()
                if died:
                    break
            # probe: a config request must still be answered
            n0 = len(sent)
            if mqtt:
                t.recv(f"in/{probe_node}/255/3/0/6", "0", 0)
            else:
                gw.tasks.add_job(gw.logic, f"{probe_node};255;3;0;6;0\n")
            answered = False
            for _ in range(600):
                if len(sent) > n0:
                    answered = True
                    break
                real_sleep(0.002)
            return bool(died) or not answered
        finally:
            gw.tasks._stop_event.set() if hasattr(gw.tasks, "_stop_event") else None
            real_sleep(0.01)
    finally:
        mtask.time = old_time
        threading.excepthook = old_hook
