"""Controlled two-thread scheduler on sys.monitoring LINE / INSTRUCTION events (CHESS-style, preemption bounded).

Target threads are real threads; at every monitored line (or opcode) of the code objects of interest the
running thread consults the schedule and may hand the baton to the other thread. A schedule is the list of
binary choices (0 = keep running, 1 = switch) at the points where both threads are runnable.
"""
import sys
import threading

mon = sys.monitoring
TOOL = 3


class Run:
    def __init__(self, prefix, first):
        self.prefix = prefix
        self.first = first
        self.sems = {"A": threading.Semaphore(0), "B": threading.Semaphore(0)}
        self.done = set()
        self.points = []          # (thread, lineno or offset) at each decision point
        self.trace = []           # every monitored event (thread, line)
        self.guard = threading.Lock()
        self.errors = {}
        self.switches = 0
        self.block_streak = 0     # forced switches in a row without any thread executing a monitored line

    def other(self, me):
        return "B" if me == "A" else "A"

    def point(self, me, where):
        with self.guard:
            self.block_streak = 0
            self.trace.append((me, where))
            oth = self.other(me)
            if oth in self.done:
                return
            idx = len(self.points)
            self.points.append((me, where))
            choice = self.prefix[idx] if idx < len(self.prefix) else 0
            if not choice:
                return
            self.switches += 1
        self.sems[oth].release()
        self.sems[me].acquire()

    def blocked(self, me):
        """`me` cannot progress (contended lock): forced switch, not a preemption."""
        oth = self.other(me)
        if oth in self.done:
            raise RuntimeError("deadlock: lock held by a finished thread")
        self.block_streak += 1
        if self.block_streak > 6:
            # both threads keep handing the baton back without either having executed a line: each waits for a lock
            # that only the other (or it itself) could release
            raise RuntimeError("deadlock: both threads wait for a lock")
        self.sems[oth].release()
        self.sems[me].acquire()

    def finish(self, me):
        with self.guard:
            self.done.add(me)
            oth = self.other(me)
            if oth in self.done:
                return
        self.sems[oth].release()


class SchedLock:
    """Lock whose contention yields to the other controlled thread instead of blocking the OS thread."""

    def __init__(self, explorer):
        self.ex = explorer
        self.owner = None

    def acquire(self, blocking=True, timeout=-1):
        me = threading.current_thread().name
        while self.owner is not None:
            run = self.ex.current
            if run is None or me not in ("A", "B"):
                raise RuntimeError("SchedLock contended outside a controlled run")
            run.blocked(me)
        self.owner = me
        return True

    def release(self):
        self.owner = None

    def locked(self):
        return self.owner is not None

    def __enter__(self):
        self.acquire()
        return self

    def __exit__(self, *a):
        self.release()
        return False


class Blocked(Exception):
    """A controlled thread waits for something only the (finished) other thread could provide."""


class SchedEvent:
    """threading.Event whose wait() yields to the other controlled thread instead of blocking the OS thread."""

    def __init__(self, explorer):
        self.ex = explorer
        self.flag = False

    def set(self):
        self.flag = True

    def clear(self):
        self.flag = False

    def is_set(self):
        return self.flag

    def wait(self, timeout=None):
        me = threading.current_thread().name
        run = self.ex.current
        if run is None or me not in ("A", "B"):
            return self.flag
        if timeout is not None:
            if not self.flag and self.ex.current.other(me) not in run.done:
                run.blocked(me)          # let the other thread run once, then report the flag (a timed wait returns)
            return self.flag
        while not self.flag:
            if run.other(me) in run.done:
                raise Blocked("waits forever: the event is never set again")
            run.blocked(me)
        return True


class CapturedThread:
    """What threading.Thread(...) returns under SchedThreading(capture=True): start() only records; the harness runs the
    target on one of its controlled threads after adopt(), and current_thread() then answers with this object."""

    def __init__(self, owner, group=None, target=None, name=None, args=(), kwargs=None, daemon=None):
        self.owner = owner
        self.target = target
        self.args = tuple(args)
        self.kwargs = dict(kwargs or {})
        self.name = name or "captured"
        self.daemon = bool(daemon)
        self.started = False
        self.ident = None

    def start(self):
        self.started = True
        self.owner.started.append(self)

    def is_alive(self):
        return self.started and self.ident is not None and not getattr(self, "finished", False)

    def join(self, timeout=None):
        return None

    def run_here(self):
        self.ident = threading.get_ident()
        self.owner.adopted[self.ident] = self
        try:
            return self.target(*self.args, **self.kwargs)
        finally:
            self.finished = True
            self.owner.adopted.pop(self.ident, None)


class SchedThreading:
    """Stand-in for the threading module: Event (and Lock) cooperate with the explorer, the rest is real."""

    def __init__(self, explorer, capture=False):
        self.ex = explorer
        self.capture = capture
        self.started = []
        self.adopted = {}

    def Thread(self, *a, **kw):
        if not self.capture:
            return threading.Thread(*a, **kw)
        return CapturedThread(self, *a, **kw)

    def current_thread(self):
        return self.adopted.get(threading.get_ident()) or threading.current_thread()

    def Event(self):
        return SchedEvent(self.ex)

    def Lock(self):
        return SchedLock(self.ex)

    def __getattr__(self, name):
        return getattr(threading, name)


class Explorer:
    def __init__(self, codes, granularity="line"):
        self.codes = list(codes)
        self.gran = granularity
        self.current = None
        self.installed = False

    def install(self):
        try:
            mon.use_tool_id(TOOL, "vf-linesched")
        except ValueError:
            pass
        ev = mon.events.LINE if self.gran == "line" else mon.events.INSTRUCTION
        mon.register_callback(TOOL, ev, self._line if self.gran == "line" else self._instr)
        for c in self.codes:
            mon.set_local_events(TOOL, c, ev)
        self.installed = True

    def uninstall(self):
        for c in self.codes:
            mon.set_local_events(TOOL, c, 0)
        ev = mon.events.LINE if self.gran == "line" else mon.events.INSTRUCTION
        mon.register_callback(TOOL, ev, None)
        try:
            mon.free_tool_id(TOOL)
        except ValueError:
            pass
        self.installed = False

    def _line(self, code, lineno):
        run = self.current
        if run is None:
            return None
        me = threading.current_thread().name
        if me in ("A", "B"):
            run.point(me, f"{code.co_name}:{lineno}")
        return None

    def _instr(self, code, offset):
        run = self.current
        if run is None:
            return None
        me = threading.current_thread().name
        if me in ("A", "B"):
            run.point(me, f"{code.co_name}@{offset}")
        return None

    def execute(self, make, prefix, first):
        """make() -> (fnA, fnB, ctx). Runs both under the schedule. Returns (run, ctx)."""
        fa, fb, ctx = make(self)
        run = Run(prefix, first)

        def body(name, fn):
            run.sems[name].acquire()
            try:
                fn()
            except BaseException as exc:  # recorded, judged by the caller
                run.errors[name] = exc
            finally:
                run.finish(name)

        ta = threading.Thread(target=body, args=("A", fa), name="A", daemon=True)
        tb = threading.Thread(target=body, args=("B", fb), name="B", daemon=True)
        self.current = run
        ta.start()
        tb.start()
        run.sems[first].release()
        ta.join(10)
        tb.join(10)
        self.current = None
        stuck = ta.is_alive() or tb.is_alive()
        return run, ctx, stuck

    def explore(self, make, bound, max_runs=100000):
        """DFS over all schedules with at most `bound` preemptions, both start orders. Yields (run, ctx, stuck, schedule)."""
        n = 0
        for first in ("A", "B"):
            stack = [[]]
            while stack and n < max_runs:
                prefix = stack.pop()
                run, ctx, stuck = self.execute(make, prefix, first)
                n += 1
                yield run, ctx, stuck, {"first": first, "choices": prefix}
                used = sum(prefix)
                if used >= bound:
                    continue
                total = len(run.points)
                for i in range(len(prefix), total):
                    stack.append(prefix + [0] * (i - len(prefix)) + [1])
