"""Substitutes for ambient services, always installed through the name the module looks up at call time."""
import asyncio
import heapq
import selectors
import threading as _threading

from . import core

core.use_repo()


class FakeTimer:
    def __init__(self, owner, interval, function, args=None, kwargs=None):
        self.owner = owner
        self.interval = interval
        self.function = function
        self.args = args or ()
        self.kwargs = kwargs or {}
        self.started = False
        self.cancelled = False
        self.fired = False
        self.daemon = False

    def start(self):
        self.started = True

    def cancel(self):
        self.cancelled = True

    def is_alive(self):
        return self.started and not self.cancelled and not self.fired

    def join(self, timeout=None):
        return None

    def fire(self):
        """Run the timer body as the timer thread would. Returns the exception it raised, if any."""
        if not self.is_alive():
            return None
        self.fired = True
        try:
            self.function(*self.args, **self.kwargs)
        except BaseException as exc:  # a real Timer thread would die with this
            return exc
        return None


class TaskThreading:
    """Stand-in for the `threading` module as seen by mysensors.task: Timer is captured, the rest is real."""

    def __init__(self):
        self.timers = []
        self.uses = 0

    def Timer(self, interval, function, args=None, kwargs=None):
        self.uses += 1
        t = FakeTimer(self, interval, function, args, kwargs)
        self.timers.append(t)
        return t

    def live(self):
        return [t for t in self.timers if t.is_alive()]

    def __getattr__(self, name):
        return getattr(_threading, name)


class Patched:
    """Context manager: setattr(module, name, value) and restore."""

    def __init__(self, *triples):
        self.triples = triples
        self.saved = []

    def __enter__(self):
        for mod, name, val in self.triples:
            self.saved.append((mod, name, getattr(mod, name)))
            setattr(mod, name, val)
        return self

    def __exit__(self, *a):
        for mod, name, val in reversed(self.saved):
            setattr(mod, name, val)
        return False


class VLoop(asyncio.SelectorEventLoop):
    """Virtual-time asyncio loop: when nothing is ready the clock jumps to the next timer.

    run_in_executor runs the function inline (deterministic); real I/O is polled with a zero timeout.
    """

    def __init__(self):
        super().__init__(selectors.DefaultSelector())
        self._vnow = 0.0
        self.log = []
        self.executor_calls = 0

    def time(self):
        return self._vnow

    def ev(self, *a):
        self.log.append((round(self._vnow, 3),) + a)

    def run_in_executor(self, executor, func, *args):
        self.executor_calls += 1
        fut = self.create_future()
        try:
            fut.set_result(func(*args))
        except BaseException as exc:  # delivered to the awaiting coroutine, as the real executor would
            fut.set_exception(exc)
        return fut

    def _run_once(self):
        sched = self._scheduled
        while sched and sched[0]._cancelled:
            h = heapq.heappop(sched)
            h._scheduled = False
        if not self._ready:
            ev = self._selector.select(0)
            if ev:
                self._process_events(ev)
            if not self._ready and sched:
                when = sched[0]._when
                if when > self._vnow:
                    self._vnow = when
        else:
            ev = self._selector.select(0)
            if ev:
                self._process_events(ev)
        end = self._vnow + self._clock_resolution
        while sched and sched[0]._when < end:
            h = heapq.heappop(sched)
            h._scheduled = False
            if not h._cancelled:
                self._ready.append(h)
        for _ in range(len(self._ready)):
            h = self._ready.popleft()
            if not h._cancelled:
                h._run()

    def advance(self, seconds):
        """Run the loop for `seconds` of virtual time."""
        async def _sleep():
            await asyncio.sleep(seconds)
        self.run_until_complete(_sleep())

    def settle(self):
        """Run until no handle is ready (does not advance the clock past pending timers)."""
        async def _noop():
            for _ in range(5):
                await asyncio.sleep(0)
        self.run_until_complete(_noop())
