#!/bin/sh
# Offline setup: optional icontract into .deps (contracts fall back to plain-Python form if absent).
cd "$(dirname "$0")/.." || exit 1
if [ ! -d .deps/icontract ]; then
  /venv/bin/pip install --quiet --no-index --find-links /opt/veriftools/wheels --target .deps icontract >/dev/null 2>&1 || echo "icontract not installed (fallback invariants are used)"
fi
/venv/bin/python -B -c "import sys; sys.path.insert(0, '/repo'); import mysensors; print('mysensors from', mysensors.__file__)"
exit 0
