#!/venv/bin/python
"""Regenerate /verif/MANIFEST.json from the table below (claimed = a module exists in vf/props)."""
import json
import os

V = os.path.dirname(os.path.dirname(os.path.abspath(__file__)))

META = {
    "C01": ("exploration", "lock-step runtime monitor: real gateway pump driven with generated hostile histories; exception / no-effect oracle on every step",
            "Held on the generated histories only: every line (grammar-random, byte-mutated, rule-corpus payloads) is fed through the real job queue / MQTT recv path after state-building prefixes; an exception out of the pump, or any state/reply/callback effect of a line the library itself rejects, is a violation. Crash signatures are confirmed on the real poll thread.",
            "Pump emulation = body of SyncTasks._poll_queue; a crash is only reported if the real threaded pump also dies on the same history. Rejected = the library's own decode/validate verdict (C03 pins that verdict)."),
    "C02": ("exploration", "property-based runtime oracle on Message encode/decode/copy with stratified Unicode and integer-spelling generators",
            "Round-trip, canonical-form and idempotence equations evaluated on generated field tuples and lines, with an independent formatter/parser as oracle.",
            "Carriable payload = no ';', no CR/LF, payload == payload.rstrip() (Python's notion of blank)."),
    "C03": ("exploration", "differential runtime oracle: independent serial-API validator vs Message.validate / ChildSensor.validate / Gateway.logic over an exhaustive header product and per-rule payload corpora; verdicts under concurrent validation from three real threads",
            "The header product (version x command x sub-type x node/child class x ack) is enumerated completely; payload rules are judged on decided boundary corpora; undecided spellings are executed but not judged.",
            "vf/spec.py is authored from the published serial API and the statement; it never imports mysensors."),
    "C04": ("exploration", "lock-step reference model + event-log checker (state projection after every step, callback count/fields/visibility, raising-callback differential)",
            "Model and real gateway advance in lock-step over generated and bounded-exhaustive histories; any projection difference or callback mismatch is a violation.",
            "Reference model written from the statements; id allocation is adopted from the observed response (C06 judges it); 0 or 1 callbacks allowed for an id request."),
    "C05": ("exploration", "lock-step reference model over the transport log; every emitted line re-decoded and re-validated by the independent validator",
            "Per-step multiset of emitted lines compared with the model; every emitted line must be canonical, valid for the version per vf/spec.py and addressed to the node concerned or broadcast; time replies judged under several TZ settings.",
            "ack of value replies is not judged; time tolerance 3 s against a value computed in the same process."),
    "C06": ("exploration", "event-log monitor over id responses across save ticks and stop/restart cycles sharing one persistence file",
            "Every id response observed is checked against the known-node set at that moment and the set of ids handed out earlier (kept by the monitor across restarts).",
            "Save ticks fire the real schedule_save body through a captured timer; restart = new gateway + start_persistence on the same file."),
    "C07": ("exploration", "event-log checker with job-origin attribution under scheduled pump lag",
            "Every send is attributed to the step whose job produced it; a non-stream line for a node that was sleeping when its job was created must originate from that node's wake-up step; lines for other nodes must not be delayed.",
            "Sleeping is the model's notion (announced smart sleep with >= 1 child)."),
    "C08": ("exploration", "lock-step reference model of withheld queue + desired values; sequence oracle on every wake-up burst",
            "At each wake-up the attributed sends must equal the held lines in order followed by the pending desired sets (as a multiset); value requests must carry the pending desired value; refused calls must be refused at call time.",
            "Order among desired sets and their ack are not judged."),
    "C09": ("exploration", "runtime oracle reassembling the served firmware from real config/block responses; independent CRC-16/MODBUS and Intel-HEX encoder",
            "Images at all 16/128-byte boundaries and random lengths are served through Gateway.logic in shuffled/repeated/multi-node request orders and reassembled.",
            "Independent bitwise CRC (poly 0xA001, init 0xFFFF)."),
    "C10": ("exploration", "lock-step session automaton (none/requested/offered/fetching) against real OTA handling, bounded-exhaustive + random histories",
            "Every stream request and set message reply is compared with the reference automaton; malformed requests must leave sessions and output untouched.",
            "Reply to an out-of-range block index is unconstrained (silence or empty data)."),
    "C11": ("exploration", "round-trip oracle over history-generated states in both formats with strict (type-tagged) projections; second save through one Persistence object; the same round trip in a child interpreter under a non-UTF-8 locale",
            "States produced by real histories (with transient state populated) are saved and loaded in JSON and pickle; projections compared strictly, transient state must be empty after load.",
            "Projection = user-visible node/child/value tree and node attributes."),
    "C12": ("fault_enumeration", "crash/fault injection at every file operation of a save (in-process FS shim with forked crash children; strace syscall injection on a real process), old-or-new oracle on the next load; two concurrent saves from real threads under a file-operation scheduler (all schedules with at most two preemptions, every directory state in between loaded)",
            "Every file operation of the observed save sequence is used as crash point and as failing operation, for every prior on-disk configuration and both formats, with and without loss of unsynced data; the next load must yield old or new state and the next save must succeed.",
            "Directory operations are durable in issue order; file data is durable only after fsync."),
    "C13": ("fault_enumeration", "exhaustive damage enumeration (every truncation offset, zero fill) x backup variants; loaded state must be a complete saved state or empty, never an exception",
            "All truncation lengths and zero-fills of valid files in both formats, crossed with backup absent/intact/damaged.",
            "Only the damage kinds the statement names are generated."),
    "C14": ("exploration", "lock-step histories with save ticks at arbitrary positions ended by the real stop(); projection before stop vs after reload; real-thread jobs: real poll thread + real threading.Timer chain (5 ms) and real asyncio loop + executor saves under a message flood",
            "Every handler kind as last state change before stop, after ticks at arbitrary positions, in both formats and flavours.",
            "Save ticks fire the real schedule_save body / async save loop."),
    "C15": ("fault_enumeration", "fault injection at every file operation and at every serialisation write point (concurrent mutation), on the real timer chain / async save loop in virtual time",
            "After each injected failure: previous file loadable, state still marked unsaved, next tick armed, next clean tick persists current state, stop() works.",
            "Concurrent mutation is produced deterministically at write points (a stand-in for the poll thread running while the timer thread serialises)."),
    "C16": ("exploration", "controlled-scheduler race detection: sys.monitoring LINE/INSTRUCTION events drive real threads through all interleavings up to a preemption bound; exactly-once/FIFO log checker for producers x pump; real stress of the real serial/TCP gateways on a pty / loopback socket under connection churn (device receive log: exactly-once, order, pump alive, delivery after the faults stop, stop() returns - blocked threads are identified by stack sampling)",
            "All schedules up to the preemption bound of send vs connection_lost/disconnect/reconnect at line granularity; stress run of several producers with the real pump checked by an exactly-once per-producer-FIFO log checker.",
            "Exhaustive only below the stated preemption bound."),
    "C17": ("exploration", "round-trip and acceptance oracles over enumerated prefixes/topics; subscription coverage checker over presentation histories and restored states; raising-callback injection",
            "Prefixes enumerated up to 3 levels over a small alphabet plus random; topics with 0..8 levels; subscription set compared with the required set.",
            "Carriable payload as in C02."),
    "C18": ("exploration", "configuration enumeration: every subset of documented options per gateway class executed under fakes, README snippets executed literally, version strings judged by distinguishing probe frames; host option against real IPv4/IPv6 loopback devices; persistence file spellings judged by effect",
            "All option subsets x representative values for all six classes; ~260 version strings judged against numeric comparison.",
            "Documented options = README + constructor signatures."),
    "C19": ("exploration", "differential runtime oracle across chunkings and flavours through the real protocol classes",
            "Same byte stream fed with every single cut point / 1-byte / 120-byte / random splits to the threaded and asyncio protocols; final state and emitted sequence compared.",
            "With a lagging threaded pump only the interleaving of direct replies vs spawned jobs may differ (known finding F13)."),
    "C20": ("fault_enumeration", "deterministic simulation (virtual-time threads and asyncio loop) of connection lifetimes under enumerated fault sequences; offline checker over the event log; real-device sample and churn runs (real loopback sockets and ptys, real threads / event loop, wall clock, anomalies must reproduce in fresh interpreters; raising application callbacks; a second gateway that keeps dialling)",
            "Fault sequences up to a length bound over connect/read/write failures, peer closes, disconnects and stop; watchdog latency patterns on a simulated clock.",
            "Fakes mimic failure behaviour of serial ports and sockets; 'about twice' is read as [2, 2 x rt + 0.75 s] for the threaded and [2,3] x reconnect_timeout for the asyncio gateway (which looks at its deadline every rt + 0.1 s)."),
}


def main():
    checks = []
    na = []
    for pid in sorted(META):
        level, tech, text, note = META[pid]
        if os.path.exists(os.path.join(V, "vf", "props", pid.lower() + ".py")):
            checks.append({
                "property_id": pid,
                "quick_cmd": f"./check {pid} --tier quick",
                "thorough_cmd": f"./check {pid} --tier thorough",
                "evidence_file": f"evidence/{pid}.json",
                "replay_cmd_template": f"./check {pid} --replay {{path}}",
                "engine": "vf",
                "level_claimed": {"category": level, "text": text, "design_ref": f"DESIGN.md section 4, {pid}"},
                "level_note": note,
                "technique": tech,
            })
        else:
            na.append({"property_id": pid, "reason": "runtime monitor for this property is not built yet (planned, see DESIGN.md section 9); nothing is claimed"})
    man = {
        "version": 1,
        "setup_cmd": "sh tools/setup.sh",
        "hooks": {
            "guard": "PYMYSENSORS_VERIF",
            "enable": "no in-repo hooks: monitors attach from outside (boundary objects, instance wrappers, module-namespace substitution, sys.monitoring); checks import mysensors from /repo's working tree in fresh interpreters",
            "baseline_off_cmd": "cd /repo && /venv/bin/python -m pytest -ra -q -p no:cacheprovider --timeout=900 --continue-on-collection-errors",
            "source_commits": [],
            "add_only": True,
        },
        "engines": [{"name": "vf", "path": "vf/", "serves_properties": [c["property_id"] for c in checks],
                     "kind_free_text": "runtime monitoring framework: lock-step reference model, event-log checkers, fault injectors, controlled schedulers"}],
        "checks": checks,
        "not_applicable": na,
        "notes": "Exit codes: 0 held, 1 violation (VIOLATION line), 2 inconclusive (a deciding monitor was not reached / watchdog). Known findings: known_findings.json.",
    }
    with open(os.path.join(V, "MANIFEST.json"), "w") as fh:
        json.dump(man, fh, indent=1)
    print("claimed:", [c["property_id"] for c in checks])


if __name__ == "__main__":
    main()
