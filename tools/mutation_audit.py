#!/venv/bin/python
"""Development tool (not a registered check): apply one-line mutants / seeded patches to a scratch
copy of /repo, optionally run the repo's suite, run the property's check against the copy
(VERIF_REPO) and report whether it raised a VIOLATION that is not a known finding.

  tools/mutation_audit.py [--suite] [--tier quick] [--only m01,m02 | --prop C02] [--seeded]
"""
import argparse
import json
import os
import shutil
import subprocess
import sys
import tempfile

V = os.path.dirname(os.path.dirname(os.path.abspath(__file__)))
SRC = "/repo"


def scratch():
    d = tempfile.mkdtemp(prefix="vf-mut-")
    w = os.path.join(d, "copy")
    shutil.copytree(SRC, w, ignore=shutil.ignore_patterns(".git", "__pycache__", ".benchmarks", "*.egg-info", ".pytest_cache"))
    return d, w


def run_suite(w):
    r = subprocess.run(["/venv/bin/python", "-m", "pytest", "-q", "-p", "no:cacheprovider", "-x", "--timeout=300"],
                       cwd=w, capture_output=True, text=True, env=dict(os.environ, PYTHONPATH=w))
    tail = (r.stdout.strip().splitlines() or [r.stderr[-200:]])[-1]
    return r.returncode == 0, tail[:90]


def run_check(w, prop, tier):
    env = dict(os.environ, VERIF_REPO=w)
    r = subprocess.run([os.path.join(V, "check"), prop, "--tier", tier, "--no-evidence"], cwd=V, capture_output=True, text=True, env=env)
    viol = [l for l in r.stdout.splitlines() if l.startswith("VIOLATION")]
    inc = [l for l in r.stdout.splitlines() if l.startswith("INCONCLUSIVE")]
    return r.returncode, viol, inc, r.stdout[-600:] + r.stderr[-600:]


def main():
    ap = argparse.ArgumentParser()
    ap.add_argument("--suite", action="store_true")
    ap.add_argument("--tier", default="quick")
    ap.add_argument("--only")
    ap.add_argument("--prop")
    ap.add_argument("--seeded", action="store_true")
    ap.add_argument("--checks", help="override: comma list of properties to run for each mutant")
    ap.add_argument("-v", action="store_true")
    args = ap.parse_args()
    items = []
    if args.seeded:
        sd = os.path.join(V, "seeded")
        for name in sorted(os.listdir(sd)):
            meta = os.path.join(sd, name, "meta.json")
            if os.path.exists(meta):
                m = json.load(open(meta))
                items.append({"id": name, "props": m["breaks"] if isinstance(m["breaks"], list) else [m["breaks"]],
                              "patch": os.path.join(sd, name, "patch.diff"), "expect": m.get("expect", "caught")})
    else:
        for m in json.load(open(os.path.join(V, "mutants", "mutants.json"))):
            items.append({"id": m["id"], "props": m["props"], "file": m["file"], "old": m["old"], "new": m["new"],
                          "expect": m.get("expect", "caught")})
    if args.only:
        want = set(args.only.split(","))
        items = [i for i in items if i["id"] in want]
    if args.prop:
        items = [i for i in items if args.prop in i["props"]]
    ok = True
    for it in items:
        d, w = scratch()
        try:
            if "patch" in it:
                r = subprocess.run(["git", "apply", "--unsafe-paths", "--directory", w, it["patch"]], capture_output=True, text=True, cwd="/")
                if r.returncode != 0:
                    r = subprocess.run(["patch", "-p1", "-d", w, "-i", it["patch"]], capture_output=True, text=True)
                if r.returncode != 0:
                    print(f"{it['id']}: PATCH DOES NOT APPLY {r.stderr[:200]} {r.stdout[:200]}")
                    ok = False
                    continue
            else:
                p = os.path.join(w, it["file"])
                s = open(p).read()
                if s.count(it["old"]) < 1:
                    print(f"{it['id']}: NOMATCH")
                    ok = False
                    continue
                open(p, "w").write(s.replace(it["old"], it["new"], 1))
            suite = ""
            if args.suite:
                green, tail = run_suite(w)
                suite = f" suite={'green' if green else 'RED'}({tail})"
            props = args.checks.split(",") if args.checks else it["props"]
            for prop in props:
                if not os.path.exists(os.path.join(V, "vf", "props", prop.lower() + ".py")):
                    print(f"{it['id']} {prop}: (check not built){suite}")
                    continue
                rc, viol, inc, tail = run_check(w, prop, args.tier)
                caught = rc == 1 and bool(viol)
                verdict = "CAUGHT" if caught else ("inconclusive" if rc == 2 else ("silent" if rc == 0 else f"rc={rc}"))
                good = (caught and it["expect"] == "caught") or (rc == 0 and it["expect"] == "silent") or it["expect"] == "any"
                if not good:
                    ok = False
                print(f"{it['id']} {prop}: {verdict} (expect {it['expect']}){'' if good else '  <<<<<< MISMATCH'}{suite}")
                if args.v or not good:
                    for l in (viol + inc)[:3]:
                        print("     ", l[:300])
                    if rc not in (0, 1):
                        print("     ", tail[-400:])
        finally:
            shutil.rmtree(d, ignore_errors=True)
    sys.exit(0 if ok else 1)


if __name__ == "__main__":
    main()
