#!/venv/bin/python
"""Development tool: automatic line mutants of mysensors/*.py.

For a random sample of mutants: scratch copy of /repo, apply, compile, run the repository's suite; mutants that
keep the suite green are run through the quick checks of the properties anchored in the mutated file. The report
lists survivors of both (blind-spot candidates to adjudicate by hand: many are equivalent or outside every statement).

  tools/auto_mutate.py --n 60 --seed 1 --out /tmp/auto_report.json [--files handler.py,sensor.py]
"""
import argparse
import json
import os
import random
import re
import shutil
import subprocess
import sys
import tempfile

V = os.path.dirname(os.path.dirname(os.path.abspath(__file__)))
SRC = "/repo"
FILES = ["__init__.py", "handler.py", "sensor.py", "message.py", "ota.py", "persistence.py", "task.py", "transport.py",
         "gateway_mqtt.py", "gateway_tcp.py", "gateway_serial.py", "validation.py", "const.py"]

RULES = [
    (r" == ", " != "), (r" != ", " == "), (r" <= ", " < "), (r" >= ", " > "), (r" < ", " <= "), (r" > ", " >= "),
    (r" is not None", " is None"), (r" is None", " is not None"), (r"\bnot ", ""), (r" and ", " or "), (r" or ", " and "),
    (r"\bTrue\b", "False"), (r"\bFalse\b", "True"), (r" \+ 1\b", " + 2"), (r" - 1\b", ""), (r"\b0\b", "1"), (r"\b1\b", "0"),
    (r"\.popleft\(\)", ".pop()"), (r"\.append\(", ".appendleft("), (r"\bcontinue\b", "break"), (r"\bbreak\b", "continue"),
    (r"return None", "return msg"), (r"ack=0", "ack=1"), (r"\* 2\b", "* 3"), (r"\b2 \*", "3 *"), (r"\b255\b", "254"), (r"\b254\b", "255"),
]


def anchors():
    m = {}
    for l in open(os.path.join(V, "properties.jsonl")):
        p = json.loads(l)
        for f in p["anchors"]["files"]:
            m.setdefault(os.path.basename(f), []).append(p["id"])
    return m


def candidates(files):
    out = []
    for f in files:
        path = os.path.join(SRC, "mysensors", f)
        lines = open(path).read().split("\n")
        in_doc = False
        for i, line in enumerate(lines):
            st = line.strip()
            if st.count('"""') == 1:
                in_doc = not in_doc
                continue
            if in_doc or not st or st.startswith(("#", '"""', "import ", "from ", "_LOGGER", "@", "def ", "class ", '"', "f\"")):
                continue
            for pat, rep in RULES:
                for mt in re.finditer(pat, line):
                    new = line[:mt.start()] + rep + line[mt.end():]
                    if new != line:
                        out.append((f, i, line, new, f"{pat} -> {rep!r}"))
            # statement deletion for simple single-line statements
            if re.match(r"^\s+(self\.|msg\.|sensor\.|child\.|os\.|file_handle\.|store\.|transport\.)[\w\.\[\]]+(\(.*\)| = .+)$", line) and not line.rstrip().endswith(("(", ",")):
                out.append((f, i, line, re.match(r"^\s+", line).group(0) + "pass", "delete statement"))
    return out


def run(cmd, cwd, env=None, timeout=1800):
    e = dict(os.environ)
    if env:
        e.update(env)
    try:
        r = subprocess.run(cmd, cwd=cwd, capture_output=True, text=True, env=e, timeout=timeout)
        return r.returncode, r.stdout + r.stderr
    except subprocess.TimeoutExpired:
        return 124, "timeout"


def main():
    ap = argparse.ArgumentParser()
    ap.add_argument("--n", type=int, default=40)
    ap.add_argument("--seed", type=int, default=1)
    ap.add_argument("--out", default="/tmp/auto_report.json")
    ap.add_argument("--files")
    ap.add_argument("--workers", type=int, default=8)
    args = ap.parse_args()
    files = args.files.split(",") if args.files else FILES
    anc = anchors()
    # work on one snapshot of the repository: candidates and mutants must refer to the same text even if /repo changes
    global SRC
    snap = tempfile.mkdtemp(prefix="vf-auto-base-")
    shutil.copytree(SRC, os.path.join(snap, "repo"), ignore=shutil.ignore_patterns(".git", "__pycache__", "*.egg-info", ".pytest_cache"))
    SRC = os.path.join(snap, "repo")
    cands = candidates(files)
    rng = random.Random(args.seed)
    rng.shuffle(cands)
    report = {"seed": args.seed, "candidates": len(cands), "tried": [], "summary": {}}
    green = 0
    for (f, i, old, new, rule) in cands:
        if green >= args.n:
            break
        d = tempfile.mkdtemp(prefix="vf-auto-")
        w = os.path.join(d, "copy")
        try:
            shutil.copytree(SRC, w, ignore=shutil.ignore_patterns(".git", "__pycache__", "*.egg-info", ".pytest_cache"))
            path = os.path.join(w, "mysensors", f)
            lines = open(path).read().split("\n")
            lines[i] = new
            open(path, "w").write("\n".join(lines))
            rc, _ = run(["/venv/bin/python", "-m", "py_compile", path], w)
            if rc != 0:
                continue
            rc, out = run(["/venv/bin/python", "-m", "pytest", "-q", "-x", "-p", "no:cacheprovider", "--timeout=120", "tests"], w, {"PYTHONPATH": w}, 600)
            rec = {"file": f, "line": i + 1, "old": old.strip(), "new": new.strip(), "rule": rule, "suite": "green" if rc == 0 else "red"}
            if rc != 0:
                report["tried"].append(rec)
                continue
            green += 1
            props = sorted(set(anc.get(f, [])))
            rec["checks"] = {}
            for p in props:
                rc2, out2 = run([os.path.join(V, "check"), p, "--tier", "quick", "--no-evidence", "--workers", str(args.workers)], V, {"VERIF_REPO": w}, 1500)
                viol = [l[:200] for l in out2.splitlines() if l.startswith("VIOLATION")]
                rec["checks"][p] = "caught" if rc2 == 1 and viol else ("inconclusive" if rc2 == 2 else "silent" if rc2 == 0 else f"rc{rc2}")
                if rec["checks"][p] == "caught":
                    rec.setdefault("first_violation", viol[0])
                    break           # one catching check is enough
            rec["verdict"] = "caught" if "caught" in rec["checks"].values() else ("inconclusive" if "inconclusive" in rec["checks"].values() else "SURVIVED")
            report["tried"].append(rec)
            print(f"[{green}/{args.n}] {f}:{i + 1} {rule}: {rec['verdict']}  | {old.strip()[:70]} => {new.strip()[:70]}", flush=True)
            with open(args.out, "w") as fh:
                json.dump(report, fh, indent=1)
        finally:
            shutil.rmtree(d, ignore_errors=True)
    s = {}
    for r in report["tried"]:
        k = r.get("verdict", "killed-by-suite")
        s[k] = s.get(k, 0) + 1
    report["summary"] = s
    with open(args.out, "w") as fh:
        json.dump(report, fh, indent=1)
    shutil.rmtree(snap, ignore_errors=True)
    print(s)


if __name__ == "__main__":
    main()
