#!/venv/bin/python
"""Rewrite the seeded-changes table in DESIGN.md (between the SEEDED-TABLE markers) from seeded/*/meta.json."""
import json
import os

V = os.path.dirname(os.path.dirname(os.path.abspath(__file__)))
sd = os.path.join(V, "seeded")
rows = []
for name in sorted(os.listdir(sd)):
    mp = os.path.join(sd, name, "meta.json")
    if not os.path.exists(mp):
        continue
    m = json.load(open(mp))
    rows.append(f"| `{name}` | {', '.join(m['breaks'])} | {m['needs_to_manifest']} | {m.get('result', 'caught by ' + ', '.join(m['breaks']) + ' (quick tier)')} |")
tbl = "<!-- SEEDED-TABLE-BEGIN -->\n| seeded change | breaks | needs, in order to manifest | result |\n|---|---|---|---|\n" + "\n".join(rows) + "\n<!-- SEEDED-TABLE-END -->"
p = os.path.join(V, "DESIGN.md")
s = open(p).read()
if "<!-- SEEDED-TABLE-BEGIN -->" in s:
    a = s.index("<!-- SEEDED-TABLE-BEGIN -->")
    b = s.index("<!-- SEEDED-TABLE-END -->") + len("<!-- SEEDED-TABLE-END -->")
    s = s[:a] + tbl + s[b:]
else:
    a = s.index("| seeded change | breaks |")
    b = s.index("\n\n", a)
    s = s[:a] + tbl + s[b:]
open(p, "w").write(s)
print(len(rows), "seeded changes")
