#!/bin/sh
# tools/on_commit.sh <repo-commit> <check args...>
# Run a check against a scratch worktree of /repo at <repo-commit> (e.g. the pre-fix snapshot), then remove it.
set -u
C="$1"; shift
W="$(mktemp -d /tmp/vf-wt-XXXXXX)"
rmdir "$W"
git -C /repo worktree add -q --detach "$W" "$C" || exit 2
VERIF_REPO="$W" /verif/check "$@" --no-evidence
RC=$?
git -C /repo worktree remove --force "$W"
exit $RC
