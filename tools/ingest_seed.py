#!/venv/bin/python
"""tools/ingest_seed.py <worktree> <seed-id> <Cxx[,Cyy]> "<needs>"

Confirms a sub-agent's property-breaking change in its scratch worktree (outside /repo and /verif):
  1. the change is an uncommitted diff under mysensors/ and applies to /repo's HEAD,
  2. the repository's own suite passes with it,
  3. demo.py exits non-zero with it and 0 without it,
then stores patch.diff, demo.py, NOTES.md and meta.json under /verif/seeded/<seed-id>/.
"""
import json
import os
import shutil
import subprocess
import sys

V = os.path.dirname(os.path.dirname(os.path.abspath(__file__)))


def sh(cmd, cwd, env=None, timeout=900):
    e = dict(os.environ)
    if env:
        e.update(env)
    r = subprocess.run(cmd, cwd=cwd, shell=True, capture_output=True, text=True, env=e, timeout=timeout)
    return r.returncode, (r.stdout + r.stderr)[-1500:]


def main():
    wt, sid, props, needs = sys.argv[1], sys.argv[2], sys.argv[3].split(","), sys.argv[4]
    patchfile = sys.argv[5] if len(sys.argv) > 5 else None
    demo = sys.argv[6] if len(sys.argv) > 6 else "demo.py"
    env = {"PYTHONPATH": wt, "PYTHONDONTWRITEBYTECODE": "1"}
    if patchfile:
        # the worktree must be clean; apply the given patch for the duration of the confirmation
        subprocess.run("git checkout -- mysensors README.md", cwd=wt, shell=True)
        r = subprocess.run(f"git apply {patchfile}", cwd=wt, shell=True, capture_output=True, text=True)
        if r.returncode != 0:
            print("patch does not apply:", r.stderr[:300])
            return 1
    rc, diff = subprocess.run("git diff -- mysensors README.md", cwd=wt, shell=True, capture_output=True, text=True).returncode, None
    diff = subprocess.run("git diff -- mysensors README.md", cwd=wt, shell=True, capture_output=True, text=True).stdout
    if not diff.strip():
        print("NO DIFF in", wt)
        return 1
    ran = []
    rc_t, out_t = sh("/venv/bin/python -m pytest -q -p no:cacheprovider --timeout=600 tests", wt, env)
    ran.append({"cmd": "pytest tests (with change)", "rc": rc_t, "tail": out_t.strip().splitlines()[-1:]})
    rc_d1, out_d1 = sh(f"/venv/bin/python {demo}", wt, env, timeout=300)
    ran.append({"cmd": "demo.py (with change)", "rc": rc_d1, "tail": out_d1.strip().splitlines()[-3:]})
    # NOT git stash: the stash is shared between all worktrees of one repository
    pfile = os.path.join(wt, ".ingest.patch")
    with open(pfile, "w") as fh:
        fh.write(diff)
    rc_r, out_r = sh(f"git apply -R {pfile}", wt)
    if rc_r != 0:
        print("cannot reverse the change:", out_r)
        return 1
    try:
        rc_d0, out_d0 = sh(f"/venv/bin/python {demo}", wt, env, timeout=300)
    finally:
        sh(f"git apply {pfile}", wt)
        os.remove(pfile)
    ran.append({"cmd": "demo.py (original)", "rc": rc_d0, "tail": out_d0.strip().splitlines()[-3:]})
    head_repo = subprocess.run("git rev-parse HEAD", cwd="/repo", shell=True, capture_output=True, text=True).stdout.strip()
    head_wt = subprocess.run("git rev-parse HEAD", cwd=wt, shell=True, capture_output=True, text=True).stdout.strip()
    ok = rc_t == 0 and rc_d1 != 0 and rc_d0 == 0
    print(json.dumps(ran, indent=1))
    print("suite green:", rc_t == 0, "| demo fails with change:", rc_d1 != 0, "| demo passes without:", rc_d0 == 0)
    if not ok:
        print("NOT CONFIRMED - not stored")
        return 1
    dest = os.path.join(V, "seeded", sid)
    os.makedirs(dest, exist_ok=True)
    with open(os.path.join(dest, "patch.diff"), "w") as fh:
        fh.write(diff)
    shutil.copy(os.path.join(wt, demo), os.path.join(dest, "demo.py"))
    notes = os.path.join(wt, "NOTES.md" if demo == "demo.py" else demo.replace("demo", "NOTES").replace(".py", ".md"))
    if os.path.exists(notes):
        shutil.copy(notes, os.path.join(dest, "NOTES.md"))
    if patchfile:
        subprocess.run("git checkout -- mysensors README.md", cwd=wt, shell=True)
    meta = {"breaks": props, "needs_to_manifest": needs, "base_commit": head_wt, "repo_head_when_confirmed": head_repo,
            "confirmed": ran, "author": "independent sub-agent given only the property text and a scratch worktree", "expect": "caught"}
    with open(os.path.join(dest, "meta.json"), "w") as fh:
        json.dump(meta, fh, indent=1)
    print("stored", dest)
    return 0


if __name__ == "__main__":
    sys.exit(main())
